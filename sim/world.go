package sim

// World: one simulated system = ledger + real PersistentSlabStorage + model + handle table.

import (
	"errors"
	"fmt"
	"sort"
	"sync"

	"github.com/fxamacker/cbor/v2"
	"github.com/onflow/atree"
)

var (
	encMode cbor.EncMode
	decMode cbor.DecMode
)

func init() {
	var err error
	encMode, err = cbor.EncOptions{}.EncMode()
	if err != nil {
		panic(err)
	}
	// The decoder mode is the caller's: the library's consumer configures a generous nesting limit (the CBOR
	// library's default of 32 levels is reached by values nested some seven containers deep, which re-attachment
	// can build); a register refused only because of the caller's own limit says nothing about the library.
	decMode, err = cbor.DecOptions{MaxNestedLevels: 512}.DecMode()
	if err != nil {
		panic(err)
	}
}

type Stats struct {
	mu sync.Mutex
	C  map[string]int // counters: step kinds, reach probes, fault kinds fired
}

func NewStats() *Stats { return &Stats{C: map[string]int{}} }
func (s *Stats) Inc(k string) {
	if s != nil {
		s.mu.Lock()
		s.C[k]++
		s.mu.Unlock()
	}
}
func (s *Stats) Add(k string, n int) {
	if s != nil && n != 0 {
		s.mu.Lock()
		s.C[k] += n
		s.mu.Unlock()
	}
}
func (s *Stats) Merge(o *Stats) {
	s.mu.Lock()
	defer s.mu.Unlock()
	for k, v := range o.C {
		s.C[k] += v
	}
}

type World struct {
	failedAttemptState string // C16: ledger digest right after a deterministic commit that was rejected by an encoder failure
	Cfg     Config
	Ledger  *SimLedger
	Storage *atree.PersistentSlabStorage
	Ctl     *CallbackCtl
	cmp     atree.ValueComparator
	hip     atree.HashInputProvider

	Model     *Model
	Snapshot  *Model            // model at the last successful commit
	SnapAlloc map[uint64]uint64 // allocator at the last successful commit
	Handles   map[int]any       // cid -> *atree.Array | *atree.OrderedMap (latest lineage)

	armed         *Armed
	Disposed      []RegID // root slab ids of containers the driver disposed of (probe.removed looks them up)
	viaIter       map[int]bool // children whose next handle is obtained by mutable iteration
	BeforeStep    func(w *World, st *Step)
	commitJournal map[RegID][]byte // registers before the current commit attempt (mid-commit crash rollback)

	StepNo  int
	Results []string // canonical per-step results (O-DIFF)
	Stats   *Stats
	Commits int
	Events  int

	// oracles enabled for this run (set by the profile)
	Oracles OracleSet
	// extra per-step observers (used by property-specific runners)
	AfterStep func(w *World, st *Step) *Violation
	// CheckNow, when set, is the property's own oracle, run by steps that leave a failed mutation behind
	// before any model comparison (which would only cut the run as a foreign divergence)
	CheckNow func(w *World) *Violation
	// called after every failed commit attempt (C14)
	AfterFailedCommit func(w *World, st *Step, attempt int) *Violation
	BeforeCommitAttempt func(w *World, st *Step, attempt int)
}

type OracleSet struct {
	Deep    bool // O-DEEP on live storage at stride
	Recover bool // O-RECOVER on virtual ledger at stride
	Reg     bool // O-REG structural oracles at stride
	RecoverEveryStep bool
}

func NewWorld(cfg Config, stats *Stats) *World {
	w := &World{
		Cfg:     cfg,
		Ledger:  NewSimLedger(),
		Ctl:     NewCallbackCtl(),
		Model:   NewModel(),
		Handles: map[int]any{},
		viaIter: map[int]bool{},
		Stats:   stats,
	}
	activeCtl = w.Ctl
	hipShift = cfg.HipShift
	w.cmp = MakeComparator(w.Ctl)
	w.hip = MakeHashInputProvider(w.Ctl)
	atree.VerifSetThreshold(cfg.Slab)
	atree.VerifSetMaxCollisionLimitPerDigest(cfg.CollLimit)
	w.Storage = w.newStorage(w.Ledger, w.Ctl)
	w.Snapshot = NewModel()
	w.SnapAlloc = map[uint64]uint64{}
	return w
}

func (w *World) newStorage(l *SimLedger, ctl *CallbackCtl) *atree.PersistentSlabStorage {
	var base atree.BaseStorage
	if w.Cfg.BaseSeam {
		base = &SimBase{l}
	} else {
		base = atree.NewLedgerBaseStorage(l)
	}
	return atree.NewPersistentSlabStorage(base, encMode, decMode, MakeStorableDecoder(ctl), MakeTypeInfoDecoder(ctl))
}

func (w *World) viol(class, format string, args ...any) *Violation {
	return &Violation{Class: class, Step: w.StepNo, Msg: fmt.Sprintf(format, args...)}
}

func (w *World) digBuilder(c *MCont) atree.DigesterBuilder {
	if c.Dig.Kind == "default" {
		return atree.NewDefaultDigesterBuilder()
	}
	return &SimDigesterBuilder{Spec: c.Dig}
}

// ---- handles ----

func (w *World) dropHandles(c *MCont) {
	delete(w.Handles, c.CID)
	w.Model.eachChild(c, func(ch *MCont) { w.dropHandles(ch) })
	// A detached-and-kept container's handle still carries a callback into the handle lineage of its
	// former parent.  When that lineage is abandoned, the detached container's handle is abandoned with
	// it (it is re-opened by id, without callback): otherwise the stale callback would operate on the
	// old lineage of the former parent - the two-lineage hazard of DESIGN 3.3.
	for _, cid := range w.sortedHandleCIDs() {
		d := w.Model.Conts[cid]
		if d == nil || !d.Detached || d == c {
			continue
		}
		for _, anc := range d.FormerLineage {
			if anc == c.CID {
				d.FormerLineage = nil
				w.dropHandles(d)
				break
			}
		}
	}
}

func unwrapValue(v atree.Value) (atree.Value, int) {
	d := 0
	for {
		s, ok := v.(SomeV)
		if !ok {
			return v, d
		}
		d++
		v = s.V
	}
}

// locate returns the position of child in its parent (array index or map key).
func locate(child *MCont) (int, MVal, bool) {
	p := child.Parent
	if p == nil {
		return 0, nil, false
	}
	if p.IsMap {
		for i, v := range p.Vals {
			if childOf(v) == child {
				return i, p.Keys[i], true
			}
		}
		return 0, nil, false
	}
	for i, v := range p.Elems {
		if childOf(v) == child {
			return i, nil, true
		}
	}
	return 0, nil, false
}

// handle returns the current handle of c, obtaining it through the parent
// (lookup origin) or by root id when none is held.
func (w *World) handle(c *MCont) (any, *Violation) {
	if h, ok := w.Handles[c.CID]; ok {
		return h, nil
	}
	var h any
	if c.Parent == nil {
		id := c.VID.SlabID()
		if c.IsMap {
			m, err := atree.NewMapWithRootID(w.Storage, id, w.digBuilder(c))
			if err != nil {
				return nil, w.viol("reopen", "cannot open map #%d by root id %s: %v", c.CID, c.VID, err)
			}
			h = m
		} else {
			a, err := atree.NewArrayWithRootID(w.Storage, id)
			if err != nil {
				return nil, w.viol("reopen", "cannot open array #%d by root id %s: %v", c.CID, c.VID, err)
			}
			h = a
		}
	} else {
		ph, v := w.handle(c.Parent)
		if v != nil {
			return nil, v
		}
		idx, key, ok := locate(c)
		if !ok {
			return nil, w.viol("harness", "model lost child #%d in parent #%d", c.CID, c.Parent.CID)
		}
		var val atree.Value
		var err error
		if w.viaIter[c.CID] {
			// iteration origin: walk the parent's mutable iterator up to the child
			val, err = w.childByIteration(ph, c, idx, key)
			w.Stats.Inc("handle.iteration")
		} else if c.Parent.IsMap {
			val, err = ph.(*atree.OrderedMap).Get(w.cmp, w.hip, w.valueOfKey(key))
		} else {
			val, err = ph.(*atree.Array).Get(uint64(idx))
		}
		if err != nil {
			return nil, w.viol("nested.get", "cannot re-obtain child #%d from parent #%d: %v", c.CID, c.Parent.CID, err)
		}
		in, _ := unwrapValue(val)
		switch x := in.(type) {
		case *atree.Array:
			if c.IsMap {
				return nil, w.viol("nested.get", "child #%d: got array, model has map", c.CID)
			}
			h = x
		case *atree.OrderedMap:
			if !c.IsMap {
				return nil, w.viol("nested.get", "child #%d: got map, model has array", c.CID)
			}
			h = x
		default:
			return nil, w.viol("nested.get", "child #%d: parent returned %T, model has a container", c.CID, in)
		}
		w.Stats.Inc("handle.lookup")
	}
	w.Handles[c.CID] = h
	return h, nil
}

// ---- value materialisation ----

func (w *World) valueOfKey(k MVal) atree.Value {
	switch x := k.(type) {
	case MU64:
		return U64(x)
	case MStr:
		return Str{string(x)}
	case MSome:
		return SomeV{w.valueOfKey(x.In)}
	}
	panic("bad key")
}

// scalarOf converts a scalar spec; ok=false if the spec is not a scalar.
func scalarOf(s *VSpec) (MVal, bool) {
	switch {
	case s == nil:
		return nil, false
	case s.U != nil:
		return MU64(*s.U), true
	case s.S != nil:
		return MStr(strFor(s.S[0], s.S[1])), true
	case s.Some != nil:
		in, ok := scalarOf(s.Some)
		if !ok {
			return nil, false
		}
		return MSome{in}, true
	}
	return nil, false
}

var errSkip = errors.New("skip step")

// materialize builds the atree value and the model value for spec under owner.
// New containers are registered in the handle table (insertion origin) but not
// yet in the model forest (the caller attaches them).
func (w *World) materialize(s *VSpec, owner uint64, target *MCont) (atree.Value, MVal, error) {
	switch {
	case s == nil:
		return nil, nil, errSkip
	case s.U != nil:
		return U64(*s.U), MU64(*s.U), nil
	case s.S != nil:
		str := strFor(s.S[0], s.S[1])
		return Str{str}, MStr(str), nil
	case s.Some != nil:
		v, m, err := w.materialize(s.Some, owner, target)
		if err != nil {
			return nil, nil, err
		}
		return SomeV{v}, MSome{m}, nil
	case s.Ref != nil:
		c := w.Model.Conts[*s.Ref]
		if c == nil || c.Parent != nil || c.Owner != owner || c.Dig.Kind != "default" && c.IsMap {
			return nil, nil, errSkip
		}
		// never attach a container into itself or one of its descendants
		for p := target; p != nil; p = p.Parent {
			if p == c {
				return nil, nil, errSkip
			}
		}
		h, v := w.handle(c)
		if v != nil {
			return nil, nil, v
		}
		w.Stats.Inc("reattach")
		c.Detached = false
		return h.(atree.Value), c, nil
	case s.Arr != nil:
		if _, dup := w.Model.Conts[s.Arr.CID]; dup {
			return nil, nil, errSkip
		}
		a, err := atree.NewArray(w.Storage, OwnerAddress(owner), s.Arr.T)
		if err != nil {
			return nil, nil, fmt.Errorf("NewArray: %w", err)
		}
		c := &MCont{CID: s.Arr.CID, Type: s.Arr.T, Owner: owner, VID: RegIDOf(a.SlabID()), Dig: DigesterSpec{Kind: "default"}, Volatile: owner == 0}
		for i := range s.Arr.E {
			ev, em, err := w.materialize(&s.Arr.E[i], owner, nil)
			if err != nil {
				if err == errSkip {
					continue
				}
				return nil, nil, err
			}
			if err := a.Append(ev); err != nil {
				return nil, nil, fmt.Errorf("Append while building child: %w", err)
			}
			c.Elems = append(c.Elems, em)
			if ch := childOf(em); ch != nil {
				ch.Parent = c
			}
		}
		w.Handles[c.CID] = a
		return a, c, nil
	case s.Map != nil:
		if _, dup := w.Model.Conts[s.Map.CID]; dup {
			return nil, nil, errSkip
		}
		m, err := atree.NewMap(w.Storage, OwnerAddress(owner), atree.NewDefaultDigesterBuilder(), s.Map.T)
		if err != nil {
			return nil, nil, fmt.Errorf("NewMap: %w", err)
		}
		c := &MCont{CID: s.Map.CID, IsMap: true, Type: s.Map.T, Owner: owner, VID: RegIDOf(m.SlabID()), Dig: DigesterSpec{Kind: "default"}, Seed: m.Seed(), Volatile: owner == 0}
		for i := range s.Map.K {
			km, ok := scalarOf(&s.Map.K[i])
			if !ok || i >= len(s.Map.V) || c.findKey(km) >= 0 {
				continue
			}
			if _, refuse := w.collisionRefusal(c, km, -1); refuse {
				continue // the collision limit would refuse this key (lossy hash input + small limit)
			}
			ev, em, err := w.materialize(&s.Map.V[i], owner, nil)
			if err != nil {
				if err == errSkip {
					continue
				}
				return nil, nil, err
			}
			old, err := m.Set(w.cmp, w.hip, w.valueOfKey(km), ev)
			if err != nil {
				return nil, nil, fmt.Errorf("Set while building child: %w", err)
			}
			if old != nil {
				return nil, nil, fmt.Errorf("Set while building child returned an existing value for a new key")
			}
			c.Keys = append(c.Keys, km)
			c.Vals = append(c.Vals, em)
			if ch := childOf(em); ch != nil {
				ch.Parent = c
			}
		}
		w.Handles[c.CID] = m
		return m, c, nil
	}
	return nil, nil, errSkip
}

// attach registers containers inside mv (just inserted into parent) in the model.
func (w *World) attach(parent *MCont, mv MVal) {
	if ch := childOf(mv); ch != nil {
		ch.Parent = parent
		w.Model.register(ch)
		w.Stats.Inc("child.attached")
	}
}

// ---- disposal (what the library's consumer does with a value handed back) ----

func (w *World) disposeStorable(s atree.Storable) error {
	if s == nil {
		return nil
	}
	if w.Cfg.LazyDispose {
		cur := s
		for {
			ws, ok := cur.(SomeS)
			if !ok {
				break
			}
			cur = ws.S
		}
		if id, ok := cur.(atree.SlabIDStorable); ok {
			if slab := w.Storage.RetrieveIfLoaded(atree.SlabID(id)); slab == nil {
				// not loaded: is it a large value?  peek at the register head without decoding through the storage
				if raw, ok := w.Ledger.Regs[RegIDOf(atree.SlabID(id))]; ok && len(raw) >= 2 && raw[1]&0x1f == 0x1f {
					if err := w.Storage.Remove(atree.SlabID(id)); err != nil {
						return fmt.Errorf("Remove of referenced slab: %w", err)
					}
					w.Stats.Inc("dispose.slabref")
					w.Stats.Inc("dispose.removed-without-loading")
					return nil
				}
			}
		}
	}
	v, err := s.StoredValue(w.Storage)
	if err != nil {
		return fmt.Errorf("StoredValue of returned storable: %w", err)
	}
	in, _ := unwrapValue(v)
	var derr error
	switch x := in.(type) {
	case *atree.Array:
		err := x.PopIterate(func(e atree.Storable) {
			if e2 := w.disposeStorable(e); e2 != nil && derr == nil {
				derr = e2
			}
		})
		if err != nil {
			return fmt.Errorf("PopIterate while disposing: %w", err)
		}
	case *atree.OrderedMap:
		err := x.PopIterate(func(k, e atree.Storable) {
			if e2 := w.disposeStorable(k); e2 != nil && derr == nil {
				derr = e2
			}
			if e2 := w.disposeStorable(e); e2 != nil && derr == nil {
				derr = e2
			}
		})
		if err != nil {
			return fmt.Errorf("PopIterate while disposing: %w", err)
		}
	}
	if derr != nil {
		return derr
	}
	cur := s
	for {
		ws, ok := cur.(SomeS)
		if !ok {
			break
		}
		cur = ws.S
	}
	if id, ok := cur.(atree.SlabIDStorable); ok {
		if err := w.Storage.Remove(atree.SlabID(id)); err != nil {
			return fmt.Errorf("Remove of referenced slab: %w", err)
		}
		w.Stats.Inc("dispose.slabref")
	}
	return nil
}

// detached handles a value that left its container: either keep nested
// containers alive as detached roots, or dispose of everything.
func (w *World) detached(old MVal, s atree.Storable, keep bool) *Violation {
	ch := childOf(old)
	if ch != nil && keep {
		ch.FormerLineage = nil
		for p := ch.Parent; p != nil; p = p.Parent {
			ch.FormerLineage = append(ch.FormerLineage, p.CID)
		}
		ch.Parent = nil
		ch.Detached = true
		w.Stats.Inc("child.detached-kept")
		return nil
	}
	if ch != nil {
		w.dropHandles(ch)
		w.Model.unregister(ch)
		ch.Parent = nil
		w.Stats.Inc("child.disposed")
		w.noteDisposed(ch)
	}
	if err := w.disposeStorable(s); err != nil {
		return w.viol("dispose", "disposing a returned value failed: %v", err)
	}
	return nil
}

// ---- snapshots ----

func (w *World) takeSnapshot() {
	w.Snapshot = w.Model.Clone()
	// volatile (temp-owner) containers are never durable
	for _, r := range w.Snapshot.Roots() {
		if r.Volatile {
			w.Snapshot.unregister(r)
		}
	}
	w.SnapAlloc = map[uint64]uint64{}
	for k, v := range w.Ledger.Alloc {
		w.SnapAlloc[k] = v
	}
}

func (w *World) sortedHandleCIDs() []int {
	ids := make([]int, 0, len(w.Handles))
	for id := range w.Handles {
		ids = append(ids, id)
	}
	sort.Ints(ids)
	return ids
}

// childByIteration obtains the child's value through the parent's mutable iterator.
func (w *World) childByIteration(ph any, c *MCont, idx int, key MVal) (atree.Value, error) {
	if c.Parent.IsMap {
		it, err := ph.(*atree.OrderedMap).Iterator(w.cmp, w.hip)
		if err != nil {
			return nil, err
		}
		want := keyString(key)
		for {
			k, v, err := it.Next()
			if err != nil {
				return nil, err
			}
			if k == nil {
				return nil, fmt.Errorf("mutable iteration of parent ended before key %s", describe(key))
			}
			if km, ok := modelOfScalar(k); ok && keyString(km) == want {
				return v, nil
			}
		}
	}
	it, err := ph.(*atree.Array).Iterator()
	if err != nil {
		return nil, err
	}
	for i := 0; ; i++ {
		v, err := it.Next()
		if err != nil {
			return nil, err
		}
		if v == nil {
			return nil, fmt.Errorf("mutable iteration of parent ended before index %d", idx)
		}
		if i == idx {
			return v, nil
		}
	}
}

func (w *World) noteDisposed(c *MCont) {
	if c.Volatile {
		return
	}
	w.Disposed = append(w.Disposed, c.VID)
	if len(w.Disposed) > 64 {
		w.Disposed = w.Disposed[len(w.Disposed)-64:]
	}
}

package sim

// Directed scenarios: the minimised histories of defects that were found by these checks and
// repaired in /repo ("fixed" entries of known_findings.jsonl).  They are replayed at the start of
// every run of the owning checks, so that a regression is reported immediately and deterministically.

import "encoding/json"

func mustTrace(prop, cfg, steps string) func() *Trace {
	return func() *Trace {
		tr := &Trace{Property: prop}
		if err := json.Unmarshal([]byte(cfg), &tr.Config); err != nil {
			panic(err)
		}
		if err := json.Unmarshal([]byte(steps), &tr.Steps); err != nil {
			panic(err)
		}
		return tr
	}
}

var directedPopStaleIndex = `[{"op":"new","cid":1,"sub":"arr","owner":2,"t":{"n":3}},{"op":"a.insert","c":1,"pos":325451119,"v":{"arr":{"cid":2,"t":{"n":3},"e":[{"u":74},{"s":[4,2]},{"u":41859}]}}},{"op":"popall","c":1},{"op":"a.append","c":1,"pos":489839321,"v":{"s":[22,82]}}]`

var directedPopNoNotify = `[{"op":"new","cid":1,"sub":"map","owner":1,"t":{"n":0}},{"op":"m.set","c":1,"k":{"s":[1088,11]},"v":{"arr":{"cid":4,"t":{"n":3},"e":[{"u":40952},{"u":4294967667},{"s":[11,30]},{"s":[12,22]}]}}},{"op":"commit","flavour":"nfc","workers":1},{"op":"dropcache"},{"op":"popall","c":4},{"op":"count","c":1}]`

func init() {
	cfgA := `{"profile":"array","slab":1325,"coll_limit":255,"oracle_stride":1,"max_steps":10}`
	cfgM := `{"profile":"map","slab":512,"coll_limit":255,"oracle_stride":1,"max_steps":10}`
	Props["C01"].Directed = append(Props["C01"].Directed, mustTrace("C01", cfgA, directedPopStaleIndex))
	Props["C02"].Directed = append(Props["C02"].Directed, mustTrace("C02", cfgM, directedPopNoNotify))
	Props["C10"].Directed = append(Props["C10"].Directed, mustTrace("C10", cfgM, directedPopNoNotify), mustTrace("C10", cfgA, directedPopStaleIndex))
}

package sim

// Reference model (DESIGN §3.2): plain Go data.

import (
	"encoding/binary"
	"fmt"
	"sort"
	"strconv"
	"strings"

	"github.com/fxamacker/circlehash"
	"github.com/zeebo/blake3"
)

type MVal interface{ mval() }

type MU64 uint64
type MByte byte
type MStr string
type MSome struct{ In MVal }

func (MU64) mval()   {}
func (MByte) mval()  {}
func (MStr) mval()   {}
func (MSome) mval()  {}
func (*MCont) mval() {}

type MCont struct {
	CID    int
	IsMap  bool
	Type   TypeInfo
	Owner  uint64
	Elems  []MVal // array elements
	Keys   []MVal // map keys in insertion order (scalars)
	Vals   []MVal
	Parent *MCont // nil for roots (live or detached)

	VID    RegID        // value id == root slab id, fixed at creation
	Dig    DigesterSpec // root maps created with the harness digester; Kind "default" otherwise
	Seed   uint64       // map seed as reported by the library at creation (pure function of VID)
	Volatile bool       // temp-owner container
	Detached bool       // was removed from / overwritten in a parent and kept alive
	FormerLineage []int // cids of the former parent and its ancestors at detachment (whose handles the stale callback reaches)
}

func (c *MCont) Count() int {
	if c.IsMap {
		return len(c.Keys)
	}
	return len(c.Elems)
}

func (c *MCont) Root() *MCont {
	for c.Parent != nil {
		c = c.Parent
	}
	return c
}

func (c *MCont) Depth() int {
	d := 0
	for p := c.Parent; p != nil; p = p.Parent {
		d++
	}
	return d
}

// keyString is the canonical identity of a scalar key.
func keyString(k MVal) string {
	switch x := k.(type) {
	case MU64:
		return "u" + strconv.FormatUint(uint64(x), 10)
	case MStr:
		return "s" + string(x)
	case MSome:
		return "o" + keyString(x.In)
	}
	panic(fmt.Sprintf("bad key %T", k))
}

func (c *MCont) findKey(k MVal) int {
	ks := keyString(k)
	for i, x := range c.Keys {
		if keyString(x) == ks {
			return i
		}
	}
	return -1
}

func unwrapM(v MVal) (MVal, int) {
	d := 0
	for {
		s, ok := v.(MSome)
		if !ok {
			return v, d
		}
		d++
		v = s.In
	}
}

func wrapM(v MVal, d int) MVal {
	for i := 0; i < d; i++ {
		v = MSome{v}
	}
	return v
}

// childOf returns the container inside v (possibly wrapped), or nil.
func childOf(v MVal) *MCont {
	in, _ := unwrapM(v)
	c, _ := in.(*MCont)
	return c
}

// Model is the forest of live containers.
type Model struct {
	Conts map[int]*MCont // every live container (roots, detached roots, nested)
}

func NewModel() *Model { return &Model{Conts: map[int]*MCont{}} }

func (m *Model) SortedCIDs() []int {
	ids := make([]int, 0, len(m.Conts))
	for id := range m.Conts {
		ids = append(ids, id)
	}
	sort.Ints(ids)
	return ids
}

func (m *Model) Roots() []*MCont {
	var out []*MCont
	for _, id := range m.SortedCIDs() {
		if c := m.Conts[id]; c.Parent == nil {
			out = append(out, c)
		}
	}
	return out
}

// register adds c and all containers nested in it.
func (m *Model) register(c *MCont) {
	m.Conts[c.CID] = c
	m.eachChild(c, func(ch *MCont) {
		ch.Parent = c
		m.register(ch)
	})
}

// unregister removes c and everything nested in it.
func (m *Model) unregister(c *MCont) {
	delete(m.Conts, c.CID)
	m.eachChild(c, func(ch *MCont) { m.unregister(ch) })
}

func (m *Model) eachChild(c *MCont, f func(*MCont)) {
	vals := c.Elems
	if c.IsMap {
		vals = c.Vals
	}
	for _, v := range vals {
		if ch := childOf(v); ch != nil {
			f(ch)
		}
	}
}

// Clone deep-copies the forest.
func (m *Model) Clone() *Model {
	out := NewModel()
	for _, r := range m.Roots() {
		out.register(cloneCont(r))
	}
	return out
}

func cloneCont(c *MCont) *MCont {
	n := *c
	n.Parent = nil
	n.Elems = cloneVals(c.Elems)
	n.Keys = cloneVals(c.Keys)
	n.Vals = cloneVals(c.Vals)
	return &n
}

func cloneVals(vs []MVal) []MVal {
	if vs == nil {
		return nil
	}
	out := make([]MVal, len(vs))
	for i, v := range vs {
		out[i] = cloneVal(v)
	}
	return out
}

func cloneVal(v MVal) MVal {
	switch x := v.(type) {
	case MSome:
		return MSome{cloneVal(x.In)}
	case *MCont:
		return cloneCont(x)
	}
	return v
}

// describe renders a value canonically (used for step results and diagnostics).
func describe(v MVal) string {
	var sb strings.Builder
	describeTo(&sb, v, 0)
	return sb.String()
}

func describeTo(sb *strings.Builder, v MVal, depth int) {
	switch x := v.(type) {
	case nil:
		sb.WriteString("nil")
	case MU64:
		fmt.Fprintf(sb, "u%d", uint64(x))
	case MByte:
		fmt.Fprintf(sb, "b%d", byte(x))
	case MStr:
		if len(x) > 16 {
			fmt.Fprintf(sb, "s%d:%s..", len(x), string(x[:12]))
		} else {
			fmt.Fprintf(sb, "s%d:%s", len(x), string(x))
		}
	case MSome:
		sb.WriteString("some(")
		describeTo(sb, x.In, depth)
		sb.WriteString(")")
	case *MCont:
		if x.IsMap {
			fmt.Fprintf(sb, "map#%d%s{", x.CID, x.Type)
			if depth > 3 {
				fmt.Fprintf(sb, "..%d", len(x.Keys))
			} else {
				for i := range x.Keys {
					if i > 0 {
						sb.WriteString(",")
					}
					if i >= 6 {
						fmt.Fprintf(sb, "..%d", len(x.Keys))
						break
					}
					describeTo(sb, x.Keys[i], depth+1)
					sb.WriteString(":")
					describeTo(sb, x.Vals[i], depth+1)
				}
			}
			sb.WriteString("}")
		} else {
			fmt.Fprintf(sb, "arr#%d%s[", x.CID, x.Type)
			if depth > 3 {
				fmt.Fprintf(sb, "..%d", len(x.Elems))
			} else {
				for i := range x.Elems {
					if i > 0 {
						sb.WriteString(",")
					}
					if i >= 6 {
						fmt.Fprintf(sb, "..%d", len(x.Elems))
						break
					}
					describeTo(sb, x.Elems[i], depth+1)
				}
			}
			sb.WriteString("]")
		}
	}
}

// ---- digests of keys as the model sees them ----

func modelKeyMsg(k MVal) []byte {
	var out []byte
	for {
		switch x := k.(type) {
		case MSome:
			out = append(out, 0xd8, tagSome)
			k = x.In
			continue
		case MU64:
			out = append(out, 0xd8, tagU64)
			return appendCBORHead(out, 0, uint64(x)>>hipShift)
		case MStr:
			out = appendCBORHead(out, 3, uint64(len(x)))
			return append(out, x...)
		}
		panic("bad key")
	}
}

// digestSeq returns the digest sequence (one per level) of key k in map c,
// computed independently of atree: the harness digester's pure function, or
// CircleHash64f / BLAKE3 for maps that use the library's default builder.
func digestSeq(c *MCont, k MVal) []uint64 {
	msg := modelKeyMsg(k)
	if c.Dig.Kind != "default" {
		out := make([]uint64, c.Dig.Levels)
		for i := range out {
			out[i] = simDigestAt(c.Dig, c.Seed, msg, uint(i))
		}
		return out
	}
	out := make([]uint64, 4)
	out[0] = circlehash.Hash64(msg, c.Seed)
	sum := blake3.Sum256(msg)
	out[1] = binary.BigEndian.Uint64(sum[:])
	out[2] = binary.BigEndian.Uint64(sum[8:])
	out[3] = binary.BigEndian.Uint64(sum[16:])
	return out
}

// canonicalOrder returns the indexes of c.Keys in the order the library must iterate:
// ascending digest sequence, fully colliding keys in insertion order.
func canonicalOrder(c *MCont) []int {
	n := len(c.Keys)
	idx := make([]int, n)
	seqs := make([][]uint64, n)
	for i := range idx {
		idx[i] = i
		seqs[i] = digestSeq(c, c.Keys[i])
	}
	sort.SliceStable(idx, func(a, b int) bool {
		x, y := seqs[idx[a]], seqs[idx[b]]
		for l := 0; l < len(x) && l < len(y); l++ {
			if x[l] != y[l] {
				return x[l] < y[l]
			}
		}
		return false
	})
	return idx
}

package sim

// Traces (DESIGN §2.2): a run is {config, steps}.  Generation and replay use the
// same interpreter.  Every step is total: a step whose target does not exist (for
// instance because a shrinking pass removed its creation) is a no-op.

import (
	"encoding/json"
	"fmt"
	"strconv"
	"strings"
)

// VSpec describes a value to be materialised.
type VSpec struct {
	U    *uint64 `json:"u,omitempty"`
	S    *[2]int `json:"s,omitempty"` // [id, len]
	Some *VSpec  `json:"some,omitempty"`
	Arr  *CSpec  `json:"arr,omitempty"`
	Map  *CSpec  `json:"map,omitempty"`
	Ref  *int    `json:"ref,omitempty"` // re-attach the detached container with this cid
}

// CSpec describes a new child container.
type CSpec struct {
	CID int      `json:"cid"`
	T   TypeInfo `json:"t"`
	E   []VSpec  `json:"e,omitempty"` // array elements
	K   []VSpec  `json:"k,omitempty"` // map keys
	V   []VSpec  `json:"v,omitempty"` // map values
}

type FaultSpec struct {
	WriteAt []int `json:"write_at,omitempty"` // 1-based positions among this attempt's writes/deletes
	WriteIdx []int `json:"write_idx,omitempty"` // identity-based: fail every write of the k-th (0-based, mod n) id of the sorted pre-commit write set
	Attempts int  `json:"attempts,omitempty"` // the plan applies to the first n attempts (default 1)
	ReadAt   int  `json:"read_at,omitempty"`  // storage walks: the k-th ledger read of this step fails
	DecodeAt int  `json:"decode_at,omitempty"` // storage walks: the k-th element-decoder call of this step fails
}

type Step struct {
	GiveUp bool `json:"give_up,omitempty"` // commit: a failed attempt is not retried; the history goes on with the leftovers pending
	Op  string `json:"op"`
	C   int    `json:"c,omitempty"`
	CID int    `json:"cid,omitempty"` // id of a container created by this step
	Pos uint64 `json:"pos,omitempty"`
	End uint64 `json:"end,omitempty"`
	// Kids: freshly built child containers delivered by the element stream of a batch build
	Kids []VSpec `json:"kids,omitempty"`
	OOB uint64 `json:"oob,omitempty"`
	Sub string `json:"sub,omitempty"` // sub-kind (oob: get|set|insert|remove; iter flavour; crash kind; reget via)
	K   *VSpec `json:"k,omitempty"`
	V   *VSpec `json:"v,omitempty"`

	Keep bool `json:"keep,omitempty"` // keep a container detached by this step as a live root

	Owner uint64        `json:"owner,omitempty"`
	T     *TypeInfo     `json:"t,omitempty"`
	Dig   *DigesterSpec `json:"dig,omitempty"`

	Flavour string     `json:"flavour,omitempty"` // fc | nfc
	Workers int        `json:"workers,omitempty"`
	Fault   *FaultSpec `json:"fault,omitempty"`
	Retries int        `json:"retries,omitempty"`
	N       int        `json:"n,omitempty"`
	IDs     []int      `json:"ids,omitempty"`
}

type Config struct {
	Profile    string `json:"profile"`
	Slab       uint32 `json:"slab"`
	CollLimit  uint32 `json:"coll_limit"`
	BaseSeam   bool   `json:"base_seam,omitempty"`  // plug SimLedger in as BaseStorage instead of Ledger
	AllocRevert bool  `json:"alloc_revert,omitempty"`
	OracleStride int  `json:"oracle_stride"`
	MaxSteps   int    `json:"max_steps"`
	Faulty     bool   `json:"faulty,omitempty"`
	LazyDispose bool  `json:"lazy_dispose,omitempty"` // dispose of returned large-value references without loading them first
	HipShift   uint   `json:"hip_shift,omitempty"` // lossy hash input for integer keys (collisions under the default digester)
}

type Trace struct {
	Property string `json:"property"`
	Seed     uint64 `json:"seed"`
	Config   Config `json:"config"`
	Steps    []Step `json:"steps"`
	Aux      json.RawMessage `json:"aux,omitempty"` // property-specific part of a replay (schedule variant, fault plan ...)
}

func (t *Trace) JSON() []byte {
	b, err := json.Marshal(t)
	if err != nil {
		panic(err)
	}
	return b
}

func u64p(v uint64) *uint64 { return &v }

func strFor(id, n int) string {
	p := strconv.Itoa(id) + "_"
	if n <= len(p) {
		return p[:n]
	}
	var sb strings.Builder
	sb.Grow(n)
	sb.WriteString(p)
	c := byte('a' + id%26)
	for sb.Len() < n {
		sb.WriteByte(c)
	}
	return sb.String()
}

func (s Step) String() string {
	b, _ := json.Marshal(s)
	return string(b)
}

func (v *VSpec) isContainer() bool {
	for v != nil {
		if v.Arr != nil || v.Map != nil || v.Ref != nil {
			return true
		}
		v = v.Some
	}
	return false
}

// Violation is one oracle failure.
type Violation struct {
	Class string `json:"class"` // oracle class, see classes.go
	Step  int    `json:"step"`
	Msg   string `json:"msg"`
	Sig   string `json:"sig,omitempty"` // model-level signature of the failing history (known-findings matching)
}

func (v *Violation) Error() string {
	return fmt.Sprintf("[%s] step %d: %s", v.Class, v.Step, v.Msg)
}

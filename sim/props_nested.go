package sim

// C10 (nested mutation through handles) and C11 (detached containers and stale handles).

import "sort"

func nestedWeights() map[string]int {
	return map[string]int{
		"a.append": 8, "a.insert": 10, "a.set": 9, "a.remove": 9, "a.get": 2,
		"m.set": 18, "m.remove": 9, "m.get": 2,
		"settype": 3, "popall": 2, "reget": 6, "count": 1, "new": 1,
		"a.fill": 3, "m.fill": 3, "a.drain": 3, "m.drain": 3,
		"commit": 4, "dropcache": 1, "reopen": 2, "probe.removed": 2,
	}
}

func nestedProfile(r *Rng, cfg Config) *Profile {
	return &Profile{
		Name: "nested", W: nestedWeights(), MaxRoots: r.Range(1, 3), Owners: []uint64{1, 2, 0}[:r.Range(1, 3)],
		RootMapShare: 0.5, MapShare: 0.5, NestProb: []float64{0.15, 0.3, 0.45}[r.Intn(3)], MaxDepth: r.Range(2, 4), WrapProb: []float64{0, 0.15, 0.4}[r.Intn(3)],
		LargeProb: []float64{0, 0.05, 0.15}[r.Intn(3)], BoundaryProb: []float64{0.1, 0.3, 0.5}[r.Intn(3)],
		CompositeProb: []float64{0, 0.3, 0.8}[r.Intn(3)], KeyUniverse: []int{10, 40, 120}[r.Intn(3)], NestedTargetBias: []float64{0.5, 0.75, 0.9}[r.Intn(3)],
		KeepProb: 0, MaxElems: []int{8, 30, 100}[r.Pick([]int{2, 3, 1})], GrowBias: 0.5, ChildInit: 5, LongKeyProb: 0.04,
	}
}

// treeOwnership maps every register of view to the model root it belongs to.
func ownershipOf(w *World) (*LedgerView, *walkResult, *Violation) {
	l, err := w.ViewLedger()
	if err != nil {
		return nil, nil, w.viol("commit.error", "a valid in-memory state cannot be encoded: %v", err)
	}
	view, rvx := BuildView(l)
	if rvx != nil {
		return nil, nil, w.viol(rvx.class, "%s", rvx.msg)
	}
	var roots []RegID
	for _, r := range w.Model.Roots() {
		roots = append(roots, r.VID)
	}
	wr, rvx := view.Walk(roots)
	if rvx != nil {
		return nil, nil, w.viol(rvx.class, "%s", rvx.msg)
	}
	return view, wr, nil
}

func init() {
	stdProp(&PropSpec{
		ID: "C10", Level: "exploration",
		Verdict: []string{"res.nested", "nested.get", "deep.", "inline.", "valueid", "struct.", "witness.verify", "recover.", "panic", "reopen", "size.", "reg.parse"},
		Rule: "nesting-centred histories: depth up to 4, arrays and maps under both kinds of parent, wrapped and bare, every mutator (insert/set/remove/set-type/pop-all/fill/drain) applied through handles of all three origins (insertion, lookup, mutable iteration), children crossing the parent's per-element limit in both directions, parents restructured between obtaining and using a handle, commit/reopen interleaved; after every stride: deep comparison through the outermost roots, inline rule and ancestor structure on the register view (independent parser), value ids, and recovery of the current state from the registers a commit would write. Non-trivial = a child of depth >= 2 was mutated through a handle, and both inlined and standalone children occurred; distinct by trace hash",
		ExpectedReach: []string{"handle.lookup", "handle.iteration", "reach.inlined-children", "nested.depth>=2", "nested.depth>=3", "nested.standalone-child"},
	}, stdHooks{
		config: func(r *Rng, tier string) Config {
			c := baseConfig(r, "nested", tier)
			if r.Sub("hip").Chance(0.25) {
				// integer keys that collide on every digest level under the default digester: children live inside
				// inline / external collision groups and last-level lists of their parent maps
				c.HipShift = uint(r.Sub("hip").Range(1, 3))
			}
			return c
		},
		profile: nestedProfile,
		setup: func(w *World) {
			w.AfterStep = func(w *World, st *Step) *Violation {
				if c := w.Model.Conts[st.C]; c != nil && c.Parent != nil {
					switch st.Op {
					case "a.append", "a.insert", "a.set", "a.remove", "m.set", "m.remove", "settype", "popall", "a.fill", "m.fill", "a.drain", "m.drain":
						d := c.Depth()
						w.Stats.Inc("nested.mutation")
						if d >= 2 {
							w.Stats.Inc("nested.depth>=2")
						}
						if d >= 3 {
							w.Stats.Inc("nested.depth>=3")
						}
					}
				}
				return nil
			}
		},
		check: func(w *World, final bool) *Violation {
			if v := w.DeepLive(cmpOpts{lookups: true}); v != nil {
				return v
			}
			if v := w.regCheck(regWhich{inline: true, structure: true, witness: true, sizes: true}); v != nil {
				return v
			}
			l, err := w.VirtualLedger()
			if err != nil {
				return w.viol("commit.error", "a valid in-memory state cannot be encoded: %v", err)
			}
			// count standalone nested children (reach probe)
			for _, cid := range w.Model.SortedCIDs() {
				c := w.Model.Conts[cid]
				if c.Parent != nil && l.Regs[c.VID] != nil {
					w.Stats.Inc("nested.standalone-child")
					break
				}
			}
			return w.Recover(l, w.Model, cmpOpts{}, "recover.nested")
		},
		nontrivial: func(w *World, run *Stats, levels, slabs int) bool {
			return run.C["nested.depth>=2"] > 0 && run.C["reach.inlined-children"] > 0 && run.C["nested.standalone-child"] > 0
		},
	})

	// ---- C11 ----
	type pre struct {
		view    *LedgerView
		wr      *walkResult
		cid     int
		allowed map[RegID]bool // value ids of the containers of the detached tree before the step
	}
	pres := map[*World]*pre{}
	stdProp(&PropSpec{
		ID: "C11", Level: "exploration",
		Verdict: []string{"detach.", "res.", "deep.", "valueid", "struct.", "witness.verify", "reach.", "nested.get", "panic", "reopen", "rootid", "reg.parse"},
		Rule: "histories in which handles outlive attachment: children are removed from / overwritten in their parent and kept, the former parent keeps being mutated (also at the old position), the detached child is mutated through the old handle across the inline limit, reloaded by slab id, re-attached elsewhere or disposed of; oracle: every step on a detached container changes only registers of the detached tree (register-view diff with ownership by the independent parser), former parent and detached child compare equal to their model nodes, value ids constant, reachability with detached containers counted as roots. Non-trivial = a detached container was mutated through its old handle while the former parent was also mutated afterwards; distinct by trace hash",
		ExpectedReach: []string{"child.detached-kept", "detach.child-mutated", "reattach", "detach.diff-checked"},
	}, stdHooks{
		config: func(r *Rng, tier string) Config {
			c := baseConfig(r, "detach", tier)
			if r.Sub("hip").Chance(0.2) {
				c.HipShift = uint(r.Sub("hip").Range(1, 3))
			}
			return c
		},
		profile: func(r *Rng, cfg Config) *Profile {
			p := nestedProfile(r, cfg)
			p.Name = "detach"
			p.KeepProb = []float64{0.4, 0.7, 0.9}[r.Intn(3)]
			p.ReattachProb = []float64{0.05, 0.15}[r.Intn(2)]
			p.NestedTargetBias = 0.35
			p.MaxRoots = 6
			p.W["dispose"] = 1
			p.W["a.oob"] = 2 // re-attachment attempts at impossible positions (the offered container must survive)
			p.W["a.set"] = 14
			p.W["a.remove"] = 12
			p.W["m.remove"] = 12
			return p
		},
		setup: func(w *World) {
			w.BeforeStep = func(w *World, st *Step) {
				delete(pres, w)
				c := w.Model.Conts[st.C]
				if c == nil || !c.Root().Detached {
					return
				}
				switch st.Op {
				case "a.append", "a.insert", "a.set", "a.remove", "m.set", "m.remove", "settype", "popall", "a.fill", "m.fill", "a.drain", "m.drain":
				default:
					return
				}
				if st.V != nil && st.V.isContainer() {
					// re-attachment of another detached container legitimately touches that container too
					for v := st.V; v != nil; v = v.Some {
						if v.Ref != nil {
							return
						}
					}
				}
				view, wr, v := ownershipOf(w)
				if v != nil {
					return
				}
				allowed := map[RegID]bool{}
				var collect func(x *MCont)
				collect = func(x *MCont) {
					allowed[x.VID] = true
					w.Model.eachChild(x, collect)
				}
				collect(c.Root())
				pres[w] = &pre{view, wr, c.Root().CID, allowed}
			}
			w.AfterStep = func(w *World, st *Step) *Violation {
				p := pres[w]
				delete(pres, w)
				if p == nil {
					return nil
				}
				root := w.Model.Conts[p.cid]
				w.Stats.Inc("detach.child-mutated")
				view, wr, v := ownershipOf(w)
				if v != nil {
					return v
				}
				var rootID RegID
				if root != nil {
					rootID = root.VID
				} else {
					rootID = p.view.Regs[RegID{}].ID // unreachable; root cannot vanish by its own mutation
				}
				ids := map[RegID]bool{}
				for id := range p.view.L.Regs {
					ids[id] = true
				}
				for id := range view.L.Regs {
					ids[id] = true
				}
				sorted := make([]RegID, 0, len(ids))
				for id := range ids {
					sorted = append(sorted, id)
				}
				sort.Slice(sorted, func(i, j int) bool { return regLess(sorted[i], sorted[j]) })
				for _, id := range sorted {
					before, after := p.view.L.Regs[id], view.L.Regs[id]
					if string(before) == string(after) {
						continue
					}
					ownerBefore, okB := p.wr.Owner[id]
					ownerAfter, okA := wr.Owner[id]
					if (okB && !p.allowed[ownerBefore]) || (okA && !p.allowed[ownerAfter]) {
						other := ownerAfter
						if okB && !p.allowed[ownerBefore] {
							other = ownerBefore
						}
						return w.viol("detach.foreign-register", "step %s on detached container #%d (%s) changed register %s, which belongs to the tree of %s", st.Op, p.cid, rootID, id, other)
					}
				}
				w.Stats.Inc("detach.diff-checked")
				return nil
			}
		},
		check: func(w *World, final bool) *Violation {
			if final {
				delete(pres, w)
			}
			if v := w.DeepLive(cmpOpts{lookups: true}); v != nil {
				return v
			}
			return w.regCheck(regWhich{reach: true, structure: true, witness: true})
		},
		nontrivial: func(w *World, run *Stats, levels, slabs int) bool {
			return run.C["detach.child-mutated"] > 0 && run.C["child.detached-kept"] > 0
		},
	})
}

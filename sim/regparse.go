package sim

// O-REG: an independent parser of the documented register format (DESIGN §4,
// Appendix A).  It uses none of atree's decoders; it reads CBOR heads generically.

import (
	"encoding/binary"
	"fmt"
)

type rd struct {
	b []byte
	p int
}

func (r *rd) left() int { return len(r.b) - r.p }

func (r *rd) need(n int) error {
	if r.left() < n {
		return fmt.Errorf("truncated at offset %d (need %d, have %d)", r.p, n, r.left())
	}
	return nil
}

func (r *rd) take(n int) ([]byte, error) {
	if err := r.need(n); err != nil {
		return nil, err
	}
	s := r.b[r.p : r.p+n]
	r.p += n
	return s, nil
}

// head reads one CBOR head: major type and argument.
func (r *rd) head() (byte, uint64, error) {
	if err := r.need(1); err != nil {
		return 0, 0, err
	}
	ib := r.b[r.p]
	r.p++
	major := ib >> 5
	ai := ib & 0x1f
	switch {
	case ai < 24:
		return major, uint64(ai), nil
	case ai == 24:
		b, err := r.take(1)
		if err != nil {
			return 0, 0, err
		}
		return major, uint64(b[0]), nil
	case ai == 25:
		b, err := r.take(2)
		if err != nil {
			return 0, 0, err
		}
		return major, uint64(binary.BigEndian.Uint16(b)), nil
	case ai == 26:
		b, err := r.take(4)
		if err != nil {
			return 0, 0, err
		}
		return major, uint64(binary.BigEndian.Uint32(b)), nil
	case ai == 27:
		b, err := r.take(8)
		if err != nil {
			return 0, 0, err
		}
		return major, binary.BigEndian.Uint64(b), nil
	}
	return 0, 0, fmt.Errorf("unsupported additional info %d at offset %d", ai, r.p-1)
}

func (r *rd) expect(major byte, what string) (uint64, error) {
	m, n, err := r.head()
	if err != nil {
		return 0, err
	}
	if m != major {
		return 0, fmt.Errorf("%s: want major type %d, got %d at offset %d", what, major, m, r.p)
	}
	return n, nil
}

func (r *rd) peekTag() (uint64, bool) {
	save := r.p
	m, n, err := r.head()
	r.p = save
	if err != nil || m != 6 {
		return 0, false
	}
	return n, true
}

// ---- parsed structures ----

type PElem struct {
	Kind  string // u64 | byte | str | some | ref | inl.arr | inl.map | inl.cmap
	Size  int    // encoded bytes
	U     uint64
	S     string
	Inner *PElem
	Ref   RegID

	XI       int
	Index    uint64
	Elems    []PElem    // inlined array
	MapElems *PElements // inlined map
	Compact  []PElem    // inlined compact map: values in cached-key order
	ContentLen int      // bytes of the elements part of an inlined container
	Start, CntPos int   // byte offsets in the register: of the element, of the count head of an inlined array / compact map
}

type PMapEntry struct {
	Kind     string // single | group | xgroup
	Key, Val *PElem
	Group    *PElements
	GroupRef RegID
	Size     int
}

type PElements struct {
	Level   int
	Digests []uint64 // nil for a last-level list
	IsList  bool
	Entries []PMapEntry
	Size    int
}

type PExtra struct {
	Kind    string // arr | map | cmap
	Type    TypeInfo
	TypeRef int // >= 0 when encoded as a reference into the type list
	Count   uint64
	Seed    uint64
	Digests []uint64
	Keys    []PElem
	CountPos int // byte offset of the count head in the register
	DigPos, DigEnd   int // compact maps: byte span of the digest byte string (head included)
	KeysPos, KeysEnd int // compact maps: byte span of the key array (head included)
}

type PChildHeader struct {
	Index    uint64
	Count    uint32 // arrays
	FirstKey uint64 // maps
	Size     uint16
}

type PReg struct {
	ID   RegID
	Raw  []byte
	Version int
	Kind string // arr.data | arr.meta | map.data | map.meta | map.coll | storable

	FlagRoot, FlagPointers, FlagNoSizeLimit, FlagNext, FlagIED bool

	ExtraLen, IEDLen, NextLen, ContentLen int

	Type  *TypeInfo
	Count uint64 // map extra data
	Seed  uint64
	IEDTypes []TypeInfo
	IED   []PExtra
	Next  *RegID

	Elems    []PElem
	MapElems *PElements

	ChildOwner uint64
	Children   []PChildHeader

	Storable *PElem
}

func (p *PReg) IsData() bool { return p.Kind == "arr.data" || p.Kind == "map.data" || p.Kind == "map.coll" }
func (p *PReg) IsMeta() bool { return p.Kind == "arr.meta" || p.Kind == "map.meta" }
func (p *PReg) IsMap() bool  { return p.Kind == "map.data" || p.Kind == "map.meta" || p.Kind == "map.coll" }

func parseTypeInfo(r *rd) (TypeInfo, error) {
	m, n, err := r.head()
	if err != nil {
		return TypeInfo{}, err
	}
	switch m {
	case 0:
		return TypeInfo{N: n}, nil
	case 6:
		if n != tagComposite {
			return TypeInfo{}, fmt.Errorf("type info: unexpected tag %d", n)
		}
		v, err := r.expect(0, "composite type info")
		if err != nil {
			return TypeInfo{}, err
		}
		return TypeInfo{Comp: true, N: v}, nil
	}
	return TypeInfo{}, fmt.Errorf("type info: unexpected major type %d", m)
}

// parseTypeInfoOrRef reads a type info or a tag-246 reference into types.
func parseTypeInfoOrRef(r *rd, types []TypeInfo) (TypeInfo, int, error) {
	if t, ok := r.peekTag(); ok && t == 246 {
		r.head()
		idx, err := r.expect(0, "type info ref")
		if err != nil {
			return TypeInfo{}, -1, err
		}
		if idx >= uint64(len(types)) {
			return TypeInfo{}, -1, fmt.Errorf("type info ref %d out of range %d", idx, len(types))
		}
		return types[idx], int(idx), nil
	}
	ti, err := parseTypeInfo(r)
	return ti, -1, err
}

func (r *rd) parseElem() (PElem, error) {
	start := r.p
	m, n, err := r.head()
	if err != nil {
		return PElem{}, err
	}
	var e PElem
	switch m {
	case 3:
		b, err := r.take(int(n))
		if err != nil {
			return PElem{}, err
		}
		e = PElem{Kind: "str", S: string(b)}
	case 6:
		switch n {
		case tagU64:
			v, err := r.expect(0, "u64")
			if err != nil {
				return PElem{}, err
			}
			e = PElem{Kind: "u64", U: v}
		case tagByte:
			v, err := r.expect(0, "byte")
			if err != nil {
				return PElem{}, err
			}
			e = PElem{Kind: "byte", U: v}
		case tagSome:
			in, err := r.parseElem()
			if err != nil {
				return PElem{}, err
			}
			e = PElem{Kind: "some", Inner: &in}
		case 255:
			l, err := r.expect(2, "slab id")
			if err != nil {
				return PElem{}, err
			}
			if l != 16 {
				return PElem{}, fmt.Errorf("slab id of %d bytes", l)
			}
			b, _ := r.take(16)
			if b == nil {
				return PElem{}, fmt.Errorf("truncated slab id")
			}
			e = PElem{Kind: "ref", Ref: RegID{binary.BigEndian.Uint64(b), binary.BigEndian.Uint64(b[8:])}}
		case 250, 251, 252:
			l, err := r.expect(4, "inlined container")
			if err != nil {
				return PElem{}, err
			}
			if l != 3 {
				return PElem{}, fmt.Errorf("inlined container array of %d", l)
			}
			xi, err := r.expect(0, "extra data index")
			if err != nil {
				return PElem{}, err
			}
			il, err := r.expect(2, "inlined slab index")
			if err != nil {
				return PElem{}, err
			}
			if il != 8 {
				return PElem{}, fmt.Errorf("inlined slab index of %d bytes", il)
			}
			ib, err := r.take(8)
			if err != nil {
				return PElem{}, err
			}
			e = PElem{XI: int(xi), Index: binary.BigEndian.Uint64(ib)}
			cstart := r.p
			switch n {
			case 250:
				e.Kind = "inl.arr"
				e.CntPos = r.p
				cnt, err := r.expect(4, "inlined array elements")
				if err != nil {
					return PElem{}, err
				}
				for i := uint64(0); i < cnt; i++ {
					x, err := r.parseElem()
					if err != nil {
						return PElem{}, err
					}
					e.Elems = append(e.Elems, x)
				}
			case 251:
				e.Kind = "inl.map"
				me, err := r.parseElements()
				if err != nil {
					return PElem{}, err
				}
				e.MapElems = me
			case 252:
				e.Kind = "inl.cmap"
				e.CntPos = r.p
				cnt, err := r.expect(4, "compact map values")
				if err != nil {
					return PElem{}, err
				}
				for i := uint64(0); i < cnt; i++ {
					x, err := r.parseElem()
					if err != nil {
						return PElem{}, err
					}
					e.Compact = append(e.Compact, x)
				}
			}
			e.ContentLen = r.p - cstart
		default:
			return PElem{}, fmt.Errorf("unexpected element tag %d at offset %d", n, start)
		}
	default:
		return PElem{}, fmt.Errorf("unexpected element major type %d at offset %d", m, start)
	}
	e.Size = r.p - start
	e.Start = start
	return e, nil
}

func (r *rd) parseElements() (*PElements, error) {
	start := r.p
	l, err := r.expect(4, "elements")
	if err != nil {
		return nil, err
	}
	if l != 3 {
		return nil, fmt.Errorf("elements array of %d", l)
	}
	lvl, err := r.expect(0, "elements level")
	if err != nil {
		return nil, err
	}
	dl, err := r.expect(2, "digests")
	if err != nil {
		return nil, err
	}
	if dl%8 != 0 {
		return nil, fmt.Errorf("digest bytes %d not a multiple of 8", dl)
	}
	db, err := r.take(int(dl))
	if err != nil {
		return nil, err
	}
	pe := &PElements{Level: int(lvl)}
	for i := 0; i < len(db); i += 8 {
		pe.Digests = append(pe.Digests, binary.BigEndian.Uint64(db[i:]))
	}
	cnt, err := r.expect(4, "element list")
	if err != nil {
		return nil, err
	}
	if dl == 0 && cnt > 0 {
		pe.IsList = true
	} else if uint64(len(pe.Digests)) != cnt {
		return nil, fmt.Errorf("%d digests for %d elements", len(pe.Digests), cnt)
	}
	for i := uint64(0); i < cnt; i++ {
		es := r.p
		var ent PMapEntry
		if t, ok := r.peekTag(); ok && (t == 253 || t == 254) {
			r.head()
			if t == 253 {
				g, err := r.parseElements()
				if err != nil {
					return nil, err
				}
				ent = PMapEntry{Kind: "group", Group: g}
			} else {
				x, err := r.parseElem()
				if err != nil {
					return nil, err
				}
				if x.Kind != "ref" {
					return nil, fmt.Errorf("external group without slab id")
				}
				ent = PMapEntry{Kind: "xgroup", GroupRef: x.Ref}
			}
		} else {
			n, err := r.expect(4, "map element")
			if err != nil {
				return nil, err
			}
			if n != 2 {
				return nil, fmt.Errorf("map element array of %d", n)
			}
			k, err := r.parseElem()
			if err != nil {
				return nil, err
			}
			v, err := r.parseElem()
			if err != nil {
				return nil, err
			}
			ent = PMapEntry{Kind: "single", Key: &k, Val: &v}
		}
		ent.Size = r.p - es
		pe.Entries = append(pe.Entries, ent)
	}
	pe.Size = r.p - start
	return pe, nil
}

func (r *rd) parseIED(p *PReg) error {
	start := r.p
	l, err := r.expect(4, "inlined extra data")
	if err != nil {
		return err
	}
	if l != 2 {
		return fmt.Errorf("inlined extra data array of %d", l)
	}
	tn, err := r.expect(4, "inlined type infos")
	if err != nil {
		return err
	}
	for i := uint64(0); i < tn; i++ {
		ti, err := parseTypeInfo(r)
		if err != nil {
			return err
		}
		p.IEDTypes = append(p.IEDTypes, ti)
	}
	en, err := r.expect(4, "inlined extra data list")
	if err != nil {
		return err
	}
	for i := uint64(0); i < en; i++ {
		tag, err := r.expect(6, "inlined extra data tag")
		if err != nil {
			return err
		}
		var x PExtra
		switch tag {
		case 247:
			n, err := r.expect(4, "array extra data")
			if err != nil {
				return err
			}
			if n != 1 {
				return fmt.Errorf("array extra data of %d", n)
			}
			x.Kind = "arr"
			x.Type, x.TypeRef, err = parseTypeInfoOrRef(r, p.IEDTypes)
			if err != nil {
				return err
			}
		case 248, 249:
			if tag == 249 {
				n, err := r.expect(4, "compact map extra data")
				if err != nil {
					return err
				}
				if n != 3 {
					return fmt.Errorf("compact map extra data of %d", n)
				}
				x.Kind = "cmap"
			} else {
				x.Kind = "map"
			}
			n, err := r.expect(4, "map extra data")
			if err != nil {
				return err
			}
			if n != 3 {
				return fmt.Errorf("map extra data of %d", n)
			}
			x.Type, x.TypeRef, err = parseTypeInfoOrRef(r, p.IEDTypes)
			if err != nil {
				return err
			}
			x.CountPos = r.p
		if x.Count, err = r.expect(0, "map count"); err != nil {
				return err
			}
			if x.Seed, err = r.expect(0, "map seed"); err != nil {
				return err
			}
			if tag == 249 {
				x.DigPos = r.p
				dl, err := r.expect(2, "compact digests")
				if err != nil {
					return err
				}
				db, err := r.take(int(dl))
				if err != nil {
					return err
				}
				if dl%8 != 0 {
					return fmt.Errorf("compact digest bytes %d", dl)
				}
				for j := 0; j < len(db); j += 8 {
					x.Digests = append(x.Digests, binary.BigEndian.Uint64(db[j:]))
				}
				x.DigEnd = r.p
				x.KeysPos = r.p
				kn, err := r.expect(4, "compact keys")
				if err != nil {
					return err
				}
				if kn != uint64(len(x.Digests)) {
					return fmt.Errorf("%d compact keys for %d digests", kn, len(x.Digests))
				}
				for j := uint64(0); j < kn; j++ {
					k, err := r.parseElem()
					if err != nil {
						return err
					}
					x.Keys = append(x.Keys, k)
				}
				x.KeysEnd = r.p
			}
		default:
			return fmt.Errorf("unexpected inlined extra data tag %d", tag)
		}
		p.IED = append(p.IED, x)
	}
	p.IEDLen = r.p - start
	return nil
}

// ParseRegister parses one version-1 register.
func ParseRegister(id RegID, raw []byte) (*PReg, error) {
	p := &PReg{ID: id, Raw: raw}
	if len(raw) < 2 {
		return nil, fmt.Errorf("register shorter than its head")
	}
	p.Version = int(raw[0] >> 4)
	if p.Version != 1 {
		return nil, fmt.Errorf("version %d", p.Version)
	}
	if raw[0]&0x0c != 0 {
		return nil, fmt.Errorf("undefined bits in head[0]: %#x", raw[0])
	}
	p.FlagNext = raw[0]&0x02 != 0
	p.FlagIED = raw[0]&0x01 != 0
	p.FlagRoot = raw[1]&0x80 != 0
	p.FlagPointers = raw[1]&0x40 != 0
	p.FlagNoSizeLimit = raw[1]&0x20 != 0
	switch raw[1] & 0x1f {
	case 0x00:
		p.Kind = "arr.data"
	case 0x01:
		p.Kind = "arr.meta"
	case 0x08:
		p.Kind = "map.data"
	case 0x09:
		p.Kind = "map.meta"
	case 0x0b:
		p.Kind = "map.coll"
	case 0x1f:
		p.Kind = "storable"
	default:
		return nil, fmt.Errorf("unknown slab kind %#x", raw[1]&0x1f)
	}
	r := &rd{b: raw, p: 2}
	if p.Kind == "storable" {
		e, err := r.parseElem()
		if err != nil {
			return nil, err
		}
		p.Storable = &e
		p.ContentLen = e.Size
		if r.left() != 0 {
			return nil, fmt.Errorf("%d trailing bytes", r.left())
		}
		return p, nil
	}
	if p.FlagRoot {
		start := r.p
		n, err := r.expect(4, "extra data")
		if err != nil {
			return nil, err
		}
		ti, err := parseTypeInfo(r)
		if err != nil {
			return nil, err
		}
		p.Type = &ti
		if p.IsMap() {
			if n != 3 {
				return nil, fmt.Errorf("map extra data of %d", n)
			}
			if p.Count, err = r.expect(0, "map count"); err != nil {
				return nil, err
			}
			if p.Seed, err = r.expect(0, "map seed"); err != nil {
				return nil, err
			}
		} else if n != 1 {
			return nil, fmt.Errorf("array extra data of %d", n)
		}
		p.ExtraLen = r.p - start
	}
	if p.IsMeta() {
		if p.FlagIED || p.FlagNext {
			return nil, fmt.Errorf("index slab with data-slab flags")
		}
		hb, err := r.take(10)
		if err != nil {
			return nil, err
		}
		p.ChildOwner = binary.BigEndian.Uint64(hb)
		n := int(binary.BigEndian.Uint16(hb[8:]))
		cstart := r.p
		for i := 0; i < n; i++ {
			if p.Kind == "arr.meta" {
				b, err := r.take(14)
				if err != nil {
					return nil, err
				}
				p.Children = append(p.Children, PChildHeader{Index: binary.BigEndian.Uint64(b), Count: binary.BigEndian.Uint32(b[8:]), Size: binary.BigEndian.Uint16(b[12:])})
			} else {
				b, err := r.take(18)
				if err != nil {
					return nil, err
				}
				p.Children = append(p.Children, PChildHeader{Index: binary.BigEndian.Uint64(b), FirstKey: binary.BigEndian.Uint64(b[8:]), Size: binary.BigEndian.Uint16(b[16:])})
			}
		}
		p.ContentLen = r.p - cstart + 10
		if r.left() != 0 {
			return nil, fmt.Errorf("%d trailing bytes", r.left())
		}
		return p, nil
	}
	if p.FlagIED {
		if err := r.parseIED(p); err != nil {
			return nil, err
		}
	}
	if p.FlagNext {
		b, err := r.take(16)
		if err != nil {
			return nil, err
		}
		p.Next = &RegID{binary.BigEndian.Uint64(b), binary.BigEndian.Uint64(b[8:])}
		p.NextLen = 16
	}
	cstart := r.p
	if p.Kind == "arr.data" {
		n, err := r.expect(4, "array elements")
		if err != nil {
			return nil, err
		}
		for i := uint64(0); i < n; i++ {
			e, err := r.parseElem()
			if err != nil {
				return nil, err
			}
			p.Elems = append(p.Elems, e)
		}
	} else {
		me, err := r.parseElements()
		if err != nil {
			return nil, err
		}
		p.MapElems = me
	}
	p.ContentLen = r.p - cstart
	if r.left() != 0 {
		return nil, fmt.Errorf("%d trailing bytes", r.left())
	}
	return p, nil
}

// ---- derived views ----

// walkElem calls f for e and everything nested in it (wrappers, inlined containers).
func walkElem(e *PElem, f func(*PElem)) {
	f(e)
	switch e.Kind {
	case "some":
		walkElem(e.Inner, f)
	case "inl.arr":
		for i := range e.Elems {
			walkElem(&e.Elems[i], f)
		}
	case "inl.map":
		walkElements(e.MapElems, f, nil)
	case "inl.cmap":
		for i := range e.Compact {
			walkElem(&e.Compact[i], f)
		}
	}
}

func walkElements(pe *PElements, f func(*PElem), g func(*PMapEntry)) {
	if pe == nil {
		return
	}
	for i := range pe.Entries {
		ent := &pe.Entries[i]
		if g != nil {
			g(ent)
		}
		switch ent.Kind {
		case "single":
			walkElem(ent.Key, f)
			walkElem(ent.Val, f)
		case "group":
			walkElements(ent.Group, f, g)
		}
	}
}

// EachElem visits every element (recursively) stored in register p.
func (p *PReg) EachElem(f func(*PElem)) {
	for i := range p.Elems {
		walkElem(&p.Elems[i], f)
	}
	walkElements(p.MapElems, f, nil)
	if p.Storable != nil {
		walkElem(p.Storable, f)
	}
}

// Refs returns element-level slab references and external-group references in p
// (every reference exactly once, however deeply the inlined containers are nested).
func (p *PReg) Refs() (elemRefs, groupRefs []RegID) {
	var walkEls func(pe *PElements)
	var walkEl func(e *PElem)
	walkEl = func(e *PElem) {
		if e == nil {
			return
		}
		switch e.Kind {
		case "ref":
			elemRefs = append(elemRefs, e.Ref)
		case "some":
			walkEl(e.Inner)
		case "inl.arr":
			for i := range e.Elems {
				walkEl(&e.Elems[i])
			}
		case "inl.map":
			walkEls(e.MapElems)
		case "inl.cmap":
			for i := range e.Compact {
				walkEl(&e.Compact[i])
			}
		}
	}
	walkEls = func(pe *PElements) {
		if pe == nil {
			return
		}
		for i := range pe.Entries {
			ent := &pe.Entries[i]
			switch ent.Kind {
			case "xgroup":
				groupRefs = append(groupRefs, ent.GroupRef)
			case "group":
				walkEls(ent.Group)
			case "single":
				walkEl(ent.Key)
				walkEl(ent.Val)
			}
		}
	}
	for i := range p.Elems {
		walkEl(&p.Elems[i])
	}
	walkEls(p.MapElems)
	if p.Storable != nil {
		walkEl(p.Storable)
	}
	return
}

func (p *PReg) HasCompact() bool {
	found := false
	p.EachElem(func(e *PElem) {
		if e.Kind == "inl.cmap" {
			found = true
		}
	})
	return found
}

package sim

import "github.com/onflow/atree"

// collisionRefusal: does the model predict that inserting new key km into map c
// is refused by the per-digest collision limit?  (C12; filled in by collide_limit.go)
func (w *World) collisionRefusal(c *MCont, km MVal, idx int) (string, bool) {
	if collisionRefusalHook != nil {
		return collisionRefusalHook(w, c, km, idx)
	}
	return "", false
}

var collisionRefusalHook func(w *World, c *MCont, km MVal, idx int) (string, bool)

func (w *World) execRefusedSet(st *Step, c *MCont, m *atree.OrderedMap, key atree.Value, km MVal, val atree.Value, mv MVal) *Violation {
	if execRefusedSetHook != nil {
		return execRefusedSetHook(w, st, c, m, key, km, val, mv)
	}
	return nil
}

var execRefusedSetHook func(w *World, st *Step, c *MCont, m *atree.OrderedMap, key atree.Value, km MVal, val atree.Value, mv MVal) *Violation

package sim

// Composite steps that grow or shrink a container quickly (deep trees in few steps).
// Each is executed as a loop of primitive steps, so O-RES applies to every element.

func init() {
	extraOps["a.fill"] = func(w *World, st *Step) *Violation {
		c := w.Model.Conts[st.C]
		if c == nil || c.IsMap || st.V == nil || st.V.S == nil {
			return nil
		}
		for i := 0; i < st.N; i++ {
			v := VSpec{S: &[2]int{st.V.S[0] + i, st.V.S[1] + i%3}}
			prim := Step{Op: "a.insert", C: st.C, V: &v}
			switch st.Sub {
			case "back":
				prim.Op = "a.append"
			case "front":
				prim.Pos = 0
			default:
				prim.Pos = st.Pos + uint64(i)*7919
			}
			if vv := w.execArray(&prim); vv != nil {
				return vv
			}
		}
		return nil
	}
	extraOps["a.drain"] = func(w *World, st *Step) *Violation {
		c := w.Model.Conts[st.C]
		if c == nil || c.IsMap {
			return nil
		}
		for i := 0; i < st.N && len(c.Elems) > 0; i++ {
			prim := Step{Op: "a.remove", C: st.C}
			switch st.Sub {
			case "back":
				prim.Pos = uint64(len(c.Elems) - 1)
			case "front":
				prim.Pos = 0
			default:
				prim.Pos = st.Pos + uint64(i)*7919
			}
			if vv := w.execArray(&prim); vv != nil {
				return vv
			}
		}
		return nil
	}
	extraOps["m.fill"] = func(w *World, st *Step) *Violation {
		c := w.Model.Conts[st.C]
		if c == nil || !c.IsMap || st.V == nil || st.V.S == nil {
			return nil
		}
		for i := 0; i < st.N; i++ {
			k := VSpec{U: u64p(st.Pos + uint64(i)*uint64(1+st.IDsStride()))}
			v := VSpec{S: &[2]int{st.V.S[0] + i, st.V.S[1] + i%3}}
			prim := Step{Op: "m.set", C: st.C, K: &k, V: &v}
			if vv := w.execMap(&prim); vv != nil {
				return vv
			}
		}
		return nil
	}
	extraOps["m.drain"] = func(w *World, st *Step) *Violation {
		c := w.Model.Conts[st.C]
		if c == nil || !c.IsMap {
			return nil
		}
		for i := 0; i < st.N && len(c.Keys) > 0; i++ {
			var idx int
			switch st.Sub {
			case "newest":
				idx = len(c.Keys) - 1
			case "oldest":
				idx = 0
			default:
				idx = int((st.Pos + uint64(i)*7919) % uint64(len(c.Keys)))
			}
			k := specOfKey(c.Keys[idx])
			prim := Step{Op: "m.remove", C: st.C, K: &k}
			if vv := w.execMap(&prim); vv != nil {
				return vv
			}
		}
		return nil
	}

	fill := func(op string, isMap bool) func(g *Gen) (Step, bool) {
		return func(g *Gen) (Step, bool) {
			c := g.pickTarget(isMap, false)
			if c == nil {
				return Step{}, false
			}
			limit := g.slotLimit(c)
			n := g.R.Range(5, 120)
			sz := g.R.Range(1, limit-2)
			if g.R.Chance(0.4) {
				sz = limit - 2 - g.R.Intn(4) // near the inline limit: few elements per slab
			}
			if sz < 1 {
				sz = 1
			}
			id := g.nextStr
			g.nextStr += n
			st := Step{Op: op, C: c.CID, N: n, V: &VSpec{S: &[2]int{id, sz}}, Sub: []string{"back", "front", "mid"}[g.R.Intn(3)], Pos: g.R.U64() % (1 << 32)}
			return st, true
		}
	}
	drain := func(op string, isMap bool) func(g *Gen) (Step, bool) {
		return func(g *Gen) (Step, bool) {
			c := g.pickTarget(isMap, false)
			if c == nil || c.Count() == 0 {
				return Step{}, false
			}
			n := g.R.Range(1, c.Count())
			subs := []string{"back", "front", "mid"}
			if isMap {
				subs = []string{"newest", "oldest", "mid"}
			}
			return Step{Op: op, C: c.CID, N: n, Sub: subs[g.R.Intn(3)], Pos: g.R.U64() % (1 << 32)}, true
		}
	}
	extraGens["a.fill"] = fill("a.fill", false)
	extraGens["m.fill"] = fill("m.fill", true)
	extraGens["a.drain"] = drain("a.drain", false)
	extraGens["m.drain"] = drain("m.drain", true)
}

// IDsStride lets m.fill space its integer keys (0 = consecutive).
func (s *Step) IDsStride() int {
	if len(s.IDs) > 0 {
		return s.IDs[0]
	}
	return 0
}

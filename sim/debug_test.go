package sim

import (
	"encoding/json"
	"fmt"
	"os"
	"testing"
)

// TestDebugReplay replays VERIF_REPLAY verbosely (developer aid).
func TestDebugReplay(t *testing.T) {
	path := os.Getenv("VERIF_REPLAY")
	if path == "" {
		t.Skip()
	}
	raw, _ := os.ReadFile(path)
	var rf ReplayFile
	if err := json.Unmarshal(raw, &rf); err != nil {
		t.Fatal(err)
	}
	ps := Props[rf.Property]
	DebugHook = func(w *World, i int, st *Step, v *Violation) {
		last := ""
		if len(w.Results) > 0 {
			last = w.Results[len(w.Results)-1]
		}
		fmt.Printf("%3d %s\n      -> %s | roots: %s\n", i, st, last, w.describeRoots())
		if v != nil {
			fmt.Printf("      VIOLATION %v\n", v)
		}
	}
	res := ps.Replay(ps, rf.Trace, NewStats())
	fmt.Printf("violation=%v cut=%v\n", res.Violation, res.Cut)
}

package sim

import (
	"encoding/json"
	"fmt"
	"os"
	"testing"
)

// TestDebugReplay replays VERIF_REPLAY verbosely (developer aid).
func TestDebugReplay(t *testing.T) {
	path := os.Getenv("VERIF_REPLAY")
	if path == "" {
		t.Skip()
	}
	raw, _ := os.ReadFile(path)
	var rf ReplayFile
	if err := json.Unmarshal(raw, &rf); err != nil {
		t.Fatal(err)
	}
	ps := Props[rf.Property]
	DebugHook = func(w *World, i int, st *Step, v *Violation) {
		last := ""
		if len(w.Results) > 0 {
			last = w.Results[len(w.Results)-1]
		}
		fmt.Printf("%3d %s\n      -> %s | roots: %s\n", i, st, last, w.describeRoots())
		if v != nil {
			fmt.Printf("      VIOLATION %v\n", v)
		}
	}
	res := ps.Replay(ps, rf.Trace, NewStats())
	fmt.Printf("violation=%v cut=%v\n", res.Violation, res.Cut)
}

// TestDebugC08 replays a C08 replay file and dumps the differing registers.
func TestDebugC08(t *testing.T) {
	path := os.Getenv("VERIF_REPLAY")
	if path == "" {
		t.Skip()
	}
	raw, _ := os.ReadFile(path)
	var rf ReplayFile
	if err := json.Unmarshal(raw, &rf); err != nil {
		t.Fatal(err)
	}
	var a struct {
		Variant SchedSpec `json:"variant"`
	}
	_ = json.Unmarshal(rf.Trace.Aux, &a)
	base := runWithSchedule(rf.Trace.Config, rf.Trace.Steps, SchedSpec{Mode: "none"}, NewStats(), true)
	other := runWithSchedule(rf.Trace.Config, rf.Trace.Steps, a.Variant, NewStats(), true)
	fmt.Println("base viol:", base.viol, "other viol:", other.viol)
	for id, b := range base.final {
		o := other.final[id]
		if string(b) != string(o) {
			fmt.Printf("register %s differs:\n base  %x\n other %x\n", id, b, o)
			if s, err := libDecode(id, b); err == nil {
				fmt.Println(" base :", s)
			}
			if s, err := libDecode(id, o); err == nil {
				fmt.Println(" other:", s)
			}
		}
	}
	for id := range other.final {
		if _, ok := base.final[id]; !ok {
			fmt.Printf("register %s only in other\n", id)
		}
	}
}

package sim

// Harness value universe (DESIGN §3.1).  These types are written for the
// simulator and deliberately do not reuse atree's test_utils, so that a change
// to test_utils cannot silently weaken an oracle.

import (
	"bytes"
	"encoding/binary"
	"errors"
	"fmt"
	"strings"
	"sync"

	"github.com/fxamacker/cbor/v2"
	"github.com/onflow/atree"
)

const (
	tagU64       = 0xa1 // 161
	tagByte      = 0xa2 // 162
	tagSome      = 0xa5 // 165
	tagComposite = 0xb0 // 176 (type info)
)

// CallbackCtl counts calls of caller-supplied callbacks and can be armed to
// fail (or panic) at the k-th call of a kind.  A nil *CallbackCtl is inert.
type CallbackCtl struct {
	mu     sync.Mutex
	Count  map[string]int
	FailAt map[string]int // kind -> 1-based call number that fails (0 = never)
	Persist bool          // every call from the k-th on fails (several failures in flight at once)
	Panic  bool           // panic instead of returning the error
	Fired  map[string]int
	Yield  func(site string) // optional scheduler yield
}

// ErrInjected is the error every armed callback returns.
var ErrInjected = errors.New("injected callback fault")

type injectedPanic struct{ kind string }

func NewCallbackCtl() *CallbackCtl {
	return &CallbackCtl{Count: map[string]int{}, FailAt: map[string]int{}, Fired: map[string]int{}}
}

func (c *CallbackCtl) Reset() {
	if c == nil {
		return
	}
	c.mu.Lock()
	defer c.mu.Unlock()
	c.Count = map[string]int{}
	c.FailAt = map[string]int{}
	c.Panic = false
	c.Persist = false
}

func (c *CallbackCtl) hit(kind string) error {
	if ey := elemYield; ey != nil && (kind == "encode" || kind == "tiencode" || kind == "decode") {
		ey(kind)
	}
	if c == nil {
		return nil
	}
	if c.Yield != nil {
		c.Yield(kind)
	}
	c.mu.Lock()
	c.Count[kind]++
	fire := false
	if k := c.FailAt[kind]; k != 0 && (c.Count[kind] == k || c.Persist && c.Count[kind] > k) {
		c.Fired[kind]++
		fire = true
	}
	doPanic := c.Panic
	c.mu.Unlock()
	if fire {
		if doPanic {
			panic(injectedPanic{kind})
		}
		return ErrInjected
	}
	return nil
}

// activeCtl is consulted by value methods that have no other context
// (Storable, Encode).  Only set in single-client profiles.
var activeCtl *CallbackCtl

// ---- U64 ----

type U64 uint64

var _ atree.Value = U64(0)
var _ atree.Storable = U64(0)

func (v U64) Storable(atree.SlabStorage, atree.Address, uint32) (atree.Storable, error) {
	if err := activeCtl.hit("storable"); err != nil {
		return nil, err
	}
	return v, nil
}
func (v U64) ByteSize() uint32 { return 2 + atree.GetUintCBORSize(uint64(v)) }
func (v U64) StoredValue(atree.SlabStorage) (atree.Value, error) {
	return v, nil
}
func (v U64) ChildStorables() []atree.Storable            { return nil }
func (v U64) CanCopyNonRefSimple() bool                   { return true }
func (v U64) CopyNonRefSimple() (atree.Storable, error)   { return v, nil }
func (v U64) String() string                              { return fmt.Sprintf("u%d", uint64(v)) }
func (v U64) Encode(enc *atree.Encoder) error {
	if err := activeCtl.hit("encode"); err != nil {
		return err
	}
	if err := enc.CBOR.EncodeRawBytes([]byte{0xd8, tagU64}); err != nil {
		return err
	}
	return enc.CBOR.EncodeUint64(uint64(v))
}

// ---- Byte (for byte-array conversions) ----

type Byte byte

var _ atree.Value = Byte(0)
var _ atree.Storable = Byte(0)

func (v Byte) Storable(atree.SlabStorage, atree.Address, uint32) (atree.Storable, error) {
	return v, nil
}
func (v Byte) ByteSize() uint32 { return 2 + atree.GetUintCBORSize(uint64(v)) }
func (v Byte) StoredValue(atree.SlabStorage) (atree.Value, error) {
	return v, nil
}
func (v Byte) ChildStorables() []atree.Storable          { return nil }
func (v Byte) CanCopyNonRefSimple() bool                 { return true }
func (v Byte) CopyNonRefSimple() (atree.Storable, error) { return v, nil }
func (v Byte) String() string                            { return fmt.Sprintf("b%d", byte(v)) }
func (v Byte) Encode(enc *atree.Encoder) error {
	if err := enc.CBOR.EncodeRawBytes([]byte{0xd8, tagByte}); err != nil {
		return err
	}
	return enc.CBOR.EncodeUint8(uint8(v))
}

// ---- Str ----

type Str struct{ S string }

var _ atree.Value = Str{}
var _ atree.ComparableStorable = Str{}

func strEncodedSize(n int) uint32 { return atree.GetUintCBORSize(uint64(n)) + uint32(n) }

func (v Str) ByteSize() uint32 { return strEncodedSize(len(v.S)) }
func (v Str) Storable(storage atree.SlabStorage, address atree.Address, maxInlineSize uint32) (atree.Storable, error) {
	if err := activeCtl.hit("storable"); err != nil {
		return nil, err
	}
	size := v.ByteSize()
	if size > maxInlineSize {
		return atree.NewStorableSlab(storage, address, v, size)
	}
	return v, nil
}
func (v Str) StoredValue(atree.SlabStorage) (atree.Value, error) { return v, nil }
func (v Str) ChildStorables() []atree.Storable                   { return nil }
func (v Str) CanCopyNonRefSimple() bool                          { return true }
func (v Str) CopyNonRefSimple() (atree.Storable, error)          { return Str{strings.Clone(v.S)}, nil }
func (v Str) String() string                                     { return fmt.Sprintf("s%d:%.12s", len(v.S), v.S) }
func (v Str) Encode(enc *atree.Encoder) error {
	if err := activeCtl.hit("encode"); err != nil {
		return err
	}
	return enc.CBOR.EncodeString(v.S)
}
func (v Str) Equal(o atree.Storable) bool {
	os, ok := o.(Str)
	return ok && os.S == v.S
}
func (v Str) Less(o atree.Storable) bool {
	os, ok := o.(Str)
	return ok && v.S < os.S
}

// ID is injective and never contains "," (atree joins IDs with ",").
func (v Str) ID() string { return fmt.Sprintf("%x", v.S) }

// ---- Some (wrapper) ----

type SomeV struct{ V atree.Value }

var _ atree.WrapperValue = SomeV{}

type SomeS struct{ S atree.Storable }

var _ atree.WrapperStorable = SomeS{}
var _ atree.ContainerStorable = SomeS{}

const someOverhead = 2 // tag head + tag number

func (v SomeV) depth() (atree.Value, uint32) {
	d := uint32(1)
	in := v.V
	for {
		s, ok := in.(SomeV)
		if !ok {
			return in, d
		}
		d++
		in = s.V
	}
}

func (v SomeV) UnwrapAtreeValue() (atree.Value, uint32) {
	in, d := v.depth()
	return in, d * someOverhead
}

func (v SomeV) Storable(storage atree.SlabStorage, address atree.Address, maxInlineSize uint32) (atree.Storable, error) {
	in, d := v.depth()
	over := d * someOverhead
	if maxInlineSize < over {
		maxInlineSize = 0
	} else {
		maxInlineSize -= over
	}
	s, err := in.Storable(storage, address, maxInlineSize)
	if err != nil {
		return nil, err
	}
	for i := uint32(0); i < d; i++ {
		s = SomeS{s}
	}
	return s, nil
}
func (v SomeV) String() string { return fmt.Sprintf("some(%v)", v.V) }

func (s SomeS) ByteSize() uint32 { return someOverhead + s.S.ByteSize() }
func (s SomeS) Encode(enc *atree.Encoder) error {
	if err := enc.CBOR.EncodeRawBytes([]byte{0xd8, tagSome}); err != nil {
		return err
	}
	return s.S.Encode(enc)
}
func (s SomeS) StoredValue(storage atree.SlabStorage) (atree.Value, error) {
	v, err := s.S.StoredValue(storage)
	if err != nil {
		return nil, err
	}
	return SomeV{v}, nil
}
func (s SomeS) ChildStorables() []atree.Storable { return []atree.Storable{s.S} }
func (s SomeS) HasPointer() bool {
	if cs, ok := s.S.(atree.ContainerStorable); ok {
		return cs.HasPointer()
	}
	return false
}
func (s SomeS) CanCopyNonRefSimple() bool { return s.UnwrapAtreeStorable().CanCopyNonRefSimple() }
func (s SomeS) CopyNonRefSimple() (atree.Storable, error) {
	in, err := s.UnwrapAtreeStorable().CopyNonRefSimple()
	if err != nil {
		return nil, err
	}
	return s.WrapAtreeStorable(in), nil
}
func (s SomeS) UnwrapAtreeStorable() atree.Storable {
	in := s.S
	for {
		w, ok := in.(atree.WrapperStorable)
		if !ok {
			return in
		}
		in = w.UnwrapAtreeStorable()
	}
}
func (s SomeS) WrapAtreeStorable(in atree.Storable) atree.Storable {
	d := 1
	cur := s.S
	for {
		w, ok := cur.(SomeS)
		if !ok {
			break
		}
		d++
		cur = w.S
	}
	out := in
	for i := 0; i < d; i++ {
		out = SomeS{out}
	}
	return out
}
func (s SomeS) String() string { return fmt.Sprintf("some(%v)", s.S) }

// ---- RawRef: a value whose storable is a bare slab reference (C20 only) ----

type RawRef atree.SlabID

func (v RawRef) Storable(atree.SlabStorage, atree.Address, uint32) (atree.Storable, error) {
	return atree.SlabIDStorable(v), nil
}

// ---- BoxedRef: a value that stores a wrapper around a slab reference in a slab of its own (C20 only):
// the reference then lives inside a large-value ("storable") slab, not inside a container slab ----

type BoxedRef atree.SlabID

func (v BoxedRef) Storable(storage atree.SlabStorage, address atree.Address, _ uint32) (atree.Storable, error) {
	inner := SomeS{atree.SlabIDStorable(v)}
	return atree.NewStorableSlab(storage, address, inner, inner.ByteSize())
}

// ---- Type infos ----

type TypeInfo struct {
	Comp bool   `json:"c,omitempty"`
	N    uint64 `json:"n"`
}

var _ atree.TypeInfo = TypeInfo{}

func (t TypeInfo) Encode(enc *cbor.StreamEncoder) error {
	if err := activeCtl.hit("tiencode"); err != nil {
		return err
	}
	if t.Comp {
		if err := enc.EncodeTagHead(tagComposite); err != nil {
			return err
		}
	}
	return enc.EncodeUint64(t.N)
}
func (t TypeInfo) IsComposite() bool    { return t.Comp }
func (t TypeInfo) Copy() atree.TypeInfo { return t }
func (t TypeInfo) String() string {
	if t.Comp {
		return fmt.Sprintf("C%d", t.N)
	}
	return fmt.Sprintf("S%d", t.N)
}

func typeInfoEqual(a, b atree.TypeInfo) bool {
	x, ok1 := a.(TypeInfo)
	y, ok2 := b.(TypeInfo)
	return ok1 && ok2 && x == y
}

func MakeTypeInfoDecoder(ctl *CallbackCtl) atree.TypeInfoDecoder {
	return func(dec *cbor.StreamDecoder) (atree.TypeInfo, error) {
		if err := ctl.hit("tidecode"); err != nil {
			return nil, err
		}
		t, err := dec.NextType()
		if err != nil {
			return nil, err
		}
		switch t {
		case cbor.UintType:
			n, err := dec.DecodeUint64()
			if err != nil {
				return nil, err
			}
			return TypeInfo{N: n}, nil
		case cbor.TagType:
			tag, err := dec.DecodeTagNumber()
			if err != nil {
				return nil, err
			}
			if tag != tagComposite {
				return nil, fmt.Errorf("bad type info tag %d", tag)
			}
			n, err := dec.DecodeUint64()
			if err != nil {
				return nil, err
			}
			return TypeInfo{Comp: true, N: n}, nil
		}
		return nil, fmt.Errorf("bad type info cbor type %s", t)
	}
}

// ---- decoder ----

func MakeStorableDecoder(ctl *CallbackCtl) atree.StorableDecoder {
	var decode atree.StorableDecoder
	decode = func(dec *cbor.StreamDecoder, id atree.SlabID, ied []atree.ExtraData) (atree.Storable, error) {
		if err := ctl.hit("decode"); err != nil {
			return nil, err
		}
		t, err := dec.NextType()
		if err != nil {
			return nil, err
		}
		switch t {
		case cbor.TextStringType:
			s, err := dec.DecodeString()
			if err != nil {
				return nil, err
			}
			return Str{s}, nil
		case cbor.TagType:
			tag, err := dec.DecodeTagNumber()
			if err != nil {
				return nil, err
			}
			switch tag {
			case atree.CBORTagInlinedArray:
				return atree.DecodeInlinedArrayStorable(dec, decode, id, ied)
			case atree.CBORTagInlinedMap:
				return atree.DecodeInlinedMapStorable(dec, decode, id, ied)
			case atree.CBORTagInlinedCompactMap:
				return atree.DecodeInlinedCompactMapStorable(dec, decode, id, ied)
			case atree.CBORTagSlabID:
				return atree.DecodeSlabIDStorable(dec)
			case tagU64:
				n, err := dec.DecodeUint64()
				if err != nil {
					return nil, err
				}
				return U64(n), nil
			case tagByte:
				n, err := dec.DecodeUint64()
				if err != nil {
					return nil, err
				}
				if n > 255 {
					return nil, fmt.Errorf("byte out of range %d", n)
				}
				return Byte(n), nil
			case tagSome:
				in, err := decode(dec, id, ied)
				if err != nil {
					return nil, err
				}
				return SomeS{in}, nil
			}
			return nil, fmt.Errorf("unknown tag %d", tag)
		}
		return nil, fmt.Errorf("unexpected cbor type %s", t)
	}
	return decode
}

// ---- hash input & comparator ----

// hipShift > 0 makes the hash input of integer keys lossy (k >> hipShift): distinct keys then share their
// whole digest sequence even under the library's default digester (a caller-supplied HashInputProvider may do that).
var hipShift uint

// hashInputOf returns the canonical CBOR encoding of a scalar key.
func hashInputOf(v atree.Value, buf []byte) ([]byte, error) {
	out := buf[:0]
	for {
		switch x := v.(type) {
		case SomeV:
			out = append(out, 0xd8, tagSome)
			v = x.V
			continue
		case U64:
			out = append(out, 0xd8, tagU64)
			return appendCBORHead(out, 0, uint64(x)>>hipShift), nil
		case Str:
			out = appendCBORHead(out, 3, uint64(len(x.S)))
			return append(out, x.S...), nil
		default:
			return nil, fmt.Errorf("value %T is not hashable", v)
		}
	}
}

func appendCBORHead(b []byte, major byte, n uint64) []byte {
	m := major << 5
	switch {
	case n <= 23:
		return append(b, m|byte(n))
	case n <= 0xff:
		return append(b, m|24, byte(n))
	case n <= 0xffff:
		return append(b, m|25, byte(n>>8), byte(n))
	case n <= 0xffffffff:
		var t [4]byte
		binary.BigEndian.PutUint32(t[:], uint32(n))
		return append(append(b, m|26), t[:]...)
	default:
		var t [8]byte
		binary.BigEndian.PutUint64(t[:], n)
		return append(append(b, m|27), t[:]...)
	}
}

func MakeHashInputProvider(ctl *CallbackCtl) atree.HashInputProvider {
	return func(v atree.Value, buf []byte) ([]byte, error) {
		if err := ctl.hit("hip"); err != nil {
			return nil, err
		}
		msg, err := hashInputOf(v, buf)
		// a second seam after the message was written into the caller's (pooled) scratch buffer
		if ctl != nil && ctl.Yield != nil {
			ctl.Yield("hip.post")
		}
		return msg, err
	}
}

func MakeComparator(ctl *CallbackCtl) atree.ValueComparator {
	return func(storage atree.SlabStorage, v atree.Value, s atree.Storable) (bool, error) {
		if err := ctl.hit("cmp"); err != nil {
			return false, err
		}
		return compareValueStorable(storage, v, s)
	}
}

func compareValueStorable(storage atree.SlabStorage, v atree.Value, s atree.Storable) (bool, error) {
	switch x := v.(type) {
	case U64:
		o, ok := s.(U64)
		return ok && o == x, nil
	case Str:
		switch o := s.(type) {
		case Str:
			return o.S == x.S, nil
		case atree.SlabIDStorable:
			ov, err := o.StoredValue(storage)
			if err != nil {
				return false, err
			}
			os, ok := ov.(Str)
			return ok && os.S == x.S, nil
		}
		return false, nil
	case SomeV:
		o, ok := s.(SomeS)
		if !ok {
			return false, nil
		}
		return compareValueStorable(storage, x.V, o.S)
	}
	return false, fmt.Errorf("value %T is not comparable", v)
}

// ---- harness digester (root maps in collision profiles) ----

type DigesterSpec struct {
	Levels int       `json:"levels"`          // 1..4
	Alpha  [4]uint64 `json:"alpha"`           // per-level alphabet size, 0 = full 64 bit
	Salt   uint64    `json:"salt,omitempty"`  // varies the assignment between runs
	Kind   string    `json:"kind,omitempty"`  // "" = harness digester, "default" = atree's own builder
}

type SimDigesterBuilder struct {
	Spec   DigesterSpec
	k0, k1 uint64
}

var _ atree.DigesterBuilder = &SimDigesterBuilder{}

func (b *SimDigesterBuilder) SetSeed(k0, k1 uint64) { b.k0, b.k1 = k0, k1 }

type simDigester struct {
	spec DigesterSpec
	k0   uint64
	msg  []byte
}

func (b *SimDigesterBuilder) Digest(hip atree.HashInputProvider, v atree.Value) (atree.Digester, error) {
	var scratch [32]byte
	msg, err := hip(v, scratch[:])
	if err != nil {
		return nil, err
	}
	return &simDigester{spec: b.Spec, k0: b.k0, msg: bytes.Clone(msg)}, nil
}

// simDigestAt is the pure digest function shared by the library-facing digester and the model.
func simDigestAt(spec DigesterSpec, k0 uint64, msg []byte, level uint) uint64 {
	h := uint64(14695981039346656037) ^ k0 ^ (spec.Salt * 0x9e3779b97f4a7c15) ^ (uint64(level+1) * 0xbf58476d1ce4e5b9)
	for _, c := range msg {
		h ^= uint64(c)
		h *= 1099511628211
	}
	h ^= h >> 31
	h *= 0x94d049bb133111eb
	h ^= h >> 29
	if a := spec.Alpha[level]; a != 0 {
		// spread small alphabets over the 64-bit range so that slab routing sees realistic gaps
		return (h % a) * (0xffffffffffffffff / a)
	}
	return h
}

func (d *simDigester) Digest(level uint) (atree.Digest, error) {
	if level >= uint(d.spec.Levels) {
		return 0, fmt.Errorf("digest level %d out of range %d", level, d.spec.Levels)
	}
	return atree.Digest(simDigestAt(d.spec, d.k0, d.msg, level)), nil
}
func (d *simDigester) DigestPrefix(level uint) ([]atree.Digest, error) {
	if level > uint(d.spec.Levels) {
		return nil, fmt.Errorf("digest prefix level %d out of range %d", level, d.spec.Levels)
	}
	var out []atree.Digest
	for i := uint(0); i < level; i++ {
		out = append(out, atree.Digest(simDigestAt(d.spec, d.k0, d.msg, i)))
	}
	return out, nil
}
func (d *simDigester) Reset()       {}
func (d *simDigester) Levels() uint { return uint(d.spec.Levels) }

package sim

// The scheduler (DESIGN §2.4): deterministic interleavings of real goroutines.
// Goroutines reaching a yield point park on a private channel; the scheduler
// goroutine waits for quiescence (testing/synctest), sorts the parked set by its
// canonical key, lets the schedule sub-stream pick one and releases it.

import (
	"fmt"
	"hash/fnv"
	"runtime"
	"sort"
	"sync"
	"testing"
	"testing/synctest"

	"github.com/onflow/atree"
)

type Sched struct {
	mu      sync.Mutex
	parked  map[string]chan struct{}
	policy  string // random | first | last | rr | starve
	r       *Rng
	Choices []string // recorded decisions (canonical keys)
	rr      int
	seq     map[string]int // per base key occurrence counter (keeps keys unique)
	Decisions int

	// element-granular worker yields (ElemStride > 0): a worker goroutine is bound to the job it took
	// (task key = site + slab id) and parks again at every ElemStride-th harness callback (element
	// Encode, type-info Encode, storable decode) it enters while working on that job, so that two
	// workers interleave in the middle of EncodeSlab / DecodeSlab, where pooled buffers are live
	ElemStride int
	tasks      map[uint64]string // goroutine id -> task key
	elemCount  map[string]int    // task key -> callbacks seen
	ElemYields int
}

func NewSched(policy string, r *Rng) *Sched {
	return &Sched{parked: map[string]chan struct{}{}, policy: policy, r: r, seq: map[string]int{}, tasks: map[uint64]string{}, elemCount: map[string]int{}}
}

// curGID returns the id of the calling goroutine (parsed from the first line of its stack header).
func curGID() uint64 {
	var buf [40]byte
	n := runtime.Stack(buf[:], false)
	// "goroutine 123 ["
	var id uint64
	for _, c := range buf[10:n] {
		if c < '0' || c > '9' {
			break
		}
		id = id*10 + uint64(c-'0')
	}
	return id
}

// WorkerYield is the library-side yield point (atree.VerifYield).
func (s *Sched) WorkerYield(site string, id atree.SlabID) {
	key := site + ":" + RegIDOf(id).String()
	if s.ElemStride > 0 && id != atree.SlabIDUndefined {
		g := curGID()
		s.mu.Lock()
		s.tasks[g] = key
		s.mu.Unlock()
	}
	s.Yield(key)
}

// ElemYield is called from harness callbacks that have no task context of their own.
func (s *Sched) ElemYield(kind string) {
	if s.ElemStride <= 0 {
		return
	}
	g := curGID()
	s.mu.Lock()
	key, ok := s.tasks[g]
	n := 0
	if ok {
		s.elemCount[key]++
		n = s.elemCount[key]
	}
	s.mu.Unlock()
	if !ok || n%s.ElemStride != 0 {
		return
	}
	s.mu.Lock()
	s.ElemYields++
	s.mu.Unlock()
	s.Yield(key + "/" + kind)
}

// Install / Uninstall wire the scheduler to the library hook and to the value callbacks.
func (s *Sched) Install() {
	atree.VerifYield = s.WorkerYield
	if s.ElemStride > 0 {
		elemYield = s.ElemYield
	}
}

func (s *Sched) Uninstall() {
	atree.VerifYield = nil
	elemYield = nil
}

// elemYield is consulted by value / type-info / decoder callbacks (nil outside element-granular bubbles).
var elemYield func(kind string)

// Yield parks the calling goroutine until the scheduler releases it.
func (s *Sched) Yield(key string) {
	ch := make(chan struct{})
	s.mu.Lock()
	s.seq[key]++
	k := fmt.Sprintf("%s#%d", key, s.seq[key])
	s.parked[k] = ch
	s.mu.Unlock()
	<-ch
}

func (s *Sched) pick() (string, chan struct{}, bool) {
	s.mu.Lock()
	defer s.mu.Unlock()
	if len(s.parked) == 0 {
		return "", nil, false
	}
	keys := make([]string, 0, len(s.parked))
	for k := range s.parked {
		keys = append(keys, k)
	}
	sort.Strings(keys)
	var i int
	switch s.policy {
	case "first":
		i = 0
	case "last":
		i = len(keys) - 1
	case "rr":
		i = s.rr % len(keys)
		s.rr++
	case "starve":
		// never pick the lexicographically first key while another is available
		if len(keys) > 1 {
			i = 1 + s.r.Intn(len(keys)-1)
		}
	default:
		i = s.r.Intn(len(keys))
	}
	k := keys[i]
	ch := s.parked[k]
	delete(s.parked, k)
	s.Choices = append(s.Choices, k)
	s.Decisions++
	return k, ch, true
}

// distinctSchedules collects the hashes of all schedule-choice sequences this worker process has executed.
var distinctSchedules = map[uint64]struct{}{}

func (s *Sched) record() {
	h := fnv.New64a()
	for _, c := range s.Choices {
		h.Write([]byte(c))
		h.Write([]byte{0})
	}
	if len(s.Choices) > 1 {
		distinctSchedules[h.Sum64()] = struct{}{}
	}
}

// RunBubble runs tasks (each in its own goroutine) inside one synctest bubble under the scheduler.
// It returns a liveness error if the bubble ends with blocked goroutines that nobody can release.
func (s *Sched) RunBubble(t *testing.T, tasks []func()) (live error) {
	defer func() {
		if r := recover(); r != nil {
			live = fmt.Errorf("bubble ended abnormally: %v", r)
		}
	}()
	inBubble = true
	defer func() { inBubble = false; s.record() }()
	synctest.Test(t, func(t *testing.T) {
		var wg sync.WaitGroup
		done := make(chan struct{})
		for _, task := range tasks {
			wg.Add(1)
			go func(f func()) {
				defer wg.Done()
				f()
			}(task)
		}
		go func() { wg.Wait(); close(done) }()
		for {
			synctest.Wait()
			select {
			case <-done:
				return
			default:
			}
			_, ch, ok := s.pick()
			if !ok {
				// nothing parked and the tasks are not done: every goroutine is durably blocked
				live = fmt.Errorf("all goroutines are blocked and none is waiting for the scheduler (deadlock)")
				// let the bubble end; synctest reports the deadlock, which is recovered above
				return
			}
			close(ch)
		}
	})
	return live
}

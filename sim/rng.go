package sim

// One integer decides everything (DESIGN §2.1): splitmix64 streams derived by label.

import "hash/fnv"

type Rng struct{ s uint64 }

func mix64(z uint64) uint64 {
	z += 0x9e3779b97f4a7c15
	z = (z ^ (z >> 30)) * 0xbf58476d1ce4e5b9
	z = (z ^ (z >> 27)) * 0x94d049bb133111eb
	return z ^ (z >> 31)
}

func NewRng(seed uint64) *Rng { return &Rng{s: mix64(seed)} }

// Sub derives an independent stream by label.
func (r *Rng) Sub(label string) *Rng {
	h := fnv.New64a()
	h.Write([]byte(label))
	return &Rng{s: mix64(r.s ^ h.Sum64())}
}

func DeriveSeed(base uint64, label string, i uint64) uint64 {
	h := fnv.New64a()
	h.Write([]byte(label))
	return mix64(mix64(base^h.Sum64()) + i*0x9e3779b97f4a7c15)
}

func (r *Rng) U64() uint64 {
	r.s += 0x9e3779b97f4a7c15
	z := r.s
	z = (z ^ (z >> 30)) * 0xbf58476d1ce4e5b9
	z = (z ^ (z >> 27)) * 0x94d049bb133111eb
	return z ^ (z >> 31)
}

func (r *Rng) Intn(n int) int {
	if n <= 0 {
		return 0
	}
	return int(r.U64() % uint64(n))
}

func (r *Rng) Range(lo, hi int) int { // inclusive
	if hi <= lo {
		return lo
	}
	return lo + r.Intn(hi-lo+1)
}

func (r *Rng) Chance(p float64) bool { return float64(r.U64()>>11)/float64(1<<53) < p }

func (r *Rng) Pick(weights []int) int {
	t := 0
	for _, w := range weights {
		t += w
	}
	if t == 0 {
		return 0
	}
	x := r.Intn(t)
	for i, w := range weights {
		if x < w {
			return i
		}
		x -= w
	}
	return len(weights) - 1
}

package sim

// C03: commits are durable and complete; nothing uncommitted reaches the ledger.

func crashProfile(r *Rng, cfg Config) *Profile {
	w := map[string]int{
		"a.append": 8, "a.insert": 10, "a.set": 8, "a.remove": 10,
		"m.set": 18, "m.remove": 9, "m.get": 1, "a.get": 1,
		"settype": 2, "popall": 1, "reget": 1, "new": 2, "dispose": 1,
		"a.fill": 2, "m.fill": 2, "a.drain": 2, "m.drain": 2,
		"commit": 6, "dropcache": 1, "reopen": 2, "crash": 4, "arm": 3, "commit.crashmid": 1, "commit.retried": 2,
	}
	return &Profile{
		Name: "crash", W: w, MaxRoots: r.Range(1, 5), Owners: []uint64{1, 0, 2, 0x0102030405060708}[:r.Range(1, 4)],
		RootMapShare: 0.5, MapShare: 0.5, NestProb: []float64{0, 0.08, 0.2}[r.Intn(3)], MaxDepth: 3, WrapProb: 0.1,
		LargeProb: []float64{0.02, 0.08, 0.2}[r.Intn(3)], BoundaryProb: []float64{0.1, 0.3, 0.6}[r.Intn(3)],
		CompositeProb: []float64{0, 0.3}[r.Intn(2)], KeyUniverse: []int{12, 60, 200}[r.Intn(3)], NestedTargetBias: 0.3, KeepProb: 0.1, ReattachProb: 0.03,
		MaxElems: []int{10, 50, 150, 400}[r.Pick([]int{1, 3, 3, 1})], GrowBias: 0.5, ChildInit: 5, LongKeyProb: 0.05,
	}
}

func init() {
	extraGens["arm"] = func(g *Gen) (Step, bool) {
		kinds := []string{"cmp", "hip", "storable", "decode", "alloc"}
		return Step{Op: "arm", Sub: kinds[g.R.Intn(len(kinds))], N: g.R.Range(1, 6)}, true
	}
	extraGens["commit.crashmid"] = func(g *Gen) (Step, bool) {
		st := g.commitStep("commit")
		st.Sub = "crashmid"
		st.Fault = &FaultSpec{WriteAt: []int{g.R.Range(1, 12)}}
		return st, true
	}

	// a commit whose first attempt(s) fail on a ledger write and which is retried until it succeeds: the
	// successful attempt is "a successful commit" like any other (what a failed attempt must leave behind is C14's)
	extraGens["commit.retried"] = func(g *Gen) (Step, bool) {
		st := g.commitStep("commit")
		if g.R.Chance(0.5) {
			st.Flavour = "nfc"
		}
		f := &FaultSpec{Attempts: g.R.Range(1, 2)}
		if g.R.Chance(0.5) {
			f.WriteAt = []int{g.R.Range(1, 6)}
		} else {
			f.WriteIdx = []int{g.R.Intn(64)}
		}
		st.Fault = f
		st.Retries = 3
		return st, true
	}

	var lastCommits map[*World]int // world -> number of commits already verified
	lastCommits = map[*World]int{}

	stdProp(&PropSpec{
		ID: "C03", Level: "fault_enumeration",
		Verdict: []string{"recover.", "ledger.monitor", "commit.error", "reopen"},
		Rule: "mixed array/map/nested histories (incl. temporary-owner containers) with commits at random strides and flavours; after EVERY step the crash point is evaluated: the ledger write monitor must show no register written or deleted since the last commit, and at a stride (every step in thorough) a brand-new storage over a copy of the durable registers must reconstruct exactly the model snapshot of the last successful commit; after every successful commit it must reconstruct the current model; real crashes (abandon, drop-deltas+drop-cache, panic inside the k-th callback of an operation, allocation error, crash in the middle of a commit with ledger rollback) are injected as steps, and some commits fail on a ledger write (by position or by register identity) for one or two attempts before the retry succeeds and the history continues on the recovered state. Non-trivial = at least one commit, one real crash and a container of >= 3 slabs; distinct by trace hash",
		ExpectedReach: []string{"commit.failed-attempt", "crash.abandon", "crash.drop", "crash.panic-in-callback", "crash.after-ledger-error", "crash.mid-commit-rollback", "crash.enumerated"},
		Directed: []func() *Trace{directedManyChildMaps, directedManyCompactMaps, directedSharedTypeInfos},
	}, stdHooks{
		config: func(r *Rng, tier string) Config {
			c := baseConfig(r, "crash", tier)
			if tier == "thorough" {
				c.OracleStride = 1
			}
			return c
		},
		profile: crashProfile,
		setup: func(w *World) {
			w.AfterStep = func(w *World, st *Step) *Violation {
				if len(w.Ledger.MonitorViolations) > 0 {
					return w.viol("ledger.monitor", "%s", w.Ledger.MonitorViolations[0])
				}
				w.Stats.Inc("crash.enumerated")
				if w.Commits != lastCommits[w] && (st.Op == "commit" || st.Op == "reopen") {
					lastCommits[w] = w.Commits
					// "complete": right after a successful commit the registers alone give the current state
					if v := w.Recover(w.Ledger.Clone(), w.Model, cmpOpts{lookups: true}, "recover.complete"); v != nil {
						return v
					}
					w.Stats.Inc("recover.after-commit")
					// ... and hold nothing else: no register outside the committed state, none missing
					if v := w.durableReach(); v != nil {
						if len(v.Class) >= 6 && v.Class[:6] == "reach." || v.Class == "reg.parse" {
							// a register outside the committed state, a missing one, or one that is no slab at all
							v.Class = "recover.registers"
						}
						return v
					}
				}
				if st.Op == "crash" || (w.Cfg.OracleStride > 0 && (w.StepNo+1)%w.Cfg.OracleStride == 0) {
					// "durable": abandoning the storage here leaves exactly the last committed state
					if v := w.Recover(w.Ledger.Clone(), w.Snapshot, cmpOpts{}, "recover.crash-point"); v != nil {
						return v
					}
					w.Stats.Inc("recover.at-crash-point")
				}
				return nil
			}
		},
		check: func(w *World, final bool) *Violation {
			if final {
				delete(lastCommits, w)
			}
			// keep the model in step (cut, not verdict)
			return w.DeepLive(cmpOpts{})
		},
		nontrivial: func(w *World, run *Stats, levels, slabs int) bool {
			crashes := run.C["crash.abandon"] + run.C["crash.drop"]
			return run.C["commit.fc"]+run.C["commit.nfc"] > 0 && crashes > 0 && slabs >= 3
		},
	})
}

// directedManyChildMaps: an array holding 300 empty child maps at slab size 8192 - a valid in-memory
// state whose commit needs more than 256 inlined map extra-data entries in one slab (recorded finding).
// directedManyCompactMaps: the same with composite-typed children whose field sets differ pairwise, so that every
// child needs a compact-map entry of its own in the shared section (the other encoder path with a one-byte index);
// at the largest slab size, so that one data slab holds more than 256 of them.
func directedManyCompactMaps() *Trace {
	tr := &Trace{Property: "C03", Config: Config{Profile: "crash", Slab: 32768, CollLimit: 255, OracleStride: 100000, MaxSteps: 500}}
	t := TypeInfo{N: 0}
	tr.Steps = append(tr.Steps, Step{Op: "new", CID: 1, Sub: "arr", Owner: 1, T: &t})
	for i := 0; i < 420; i++ {
		tr.Steps = append(tr.Steps, Step{Op: "a.append", C: 1, V: &VSpec{Map: &CSpec{CID: 10 + i, T: TypeInfo{Comp: true, N: 1},
			K: []VSpec{{S: &[2]int{7000 + i, 6}}}, V: []VSpec{{U: u64p(uint64(i))}}}}})
	}
	tr.Steps = append(tr.Steps, Step{Op: "commit", Flavour: "fc", Workers: 1})
	return tr
}

// directedSharedTypeInfos: 80 type infos, each carried by two small child maps and one child array of one parent
// slab at the largest slab size: the slab's shared type-info table (entries referenced by index from the extra
// data of the inlined children) grows past the indexes that fit CBOR's one-byte form, while the number of extra-data
// records in the slab (160 maps, 80 arrays) stays under the limit of the recorded finding.
func directedSharedTypeInfos() *Trace {
	tr := &Trace{Property: "C03", Config: Config{Profile: "crash", Slab: 32768, CollLimit: 255, OracleStride: 100000, MaxSteps: 600}}
	t := TypeInfo{N: 0}
	tr.Steps = append(tr.Steps, Step{Op: "new", CID: 1, Sub: "arr", Owner: 1, T: &t})
	for i := 0; i < 160; i++ {
		ti := TypeInfo{N: uint64(1 + i%80)}
		tr.Steps = append(tr.Steps, Step{Op: "a.append", C: 1, V: &VSpec{Map: &CSpec{CID: 10 + 2*i, T: ti,
			K: []VSpec{{U: u64p(uint64(1000 + i))}}, V: []VSpec{{U: u64p(uint64(i))}}}}})
		if i < 80 {
			tr.Steps = append(tr.Steps, Step{Op: "a.append", C: 1, V: &VSpec{Arr: &CSpec{CID: 11 + 2*i, T: ti,
				E: []VSpec{{U: u64p(uint64(i))}}}}})
		}
	}
	tr.Steps = append(tr.Steps, Step{Op: "commit", Flavour: "fc", Workers: 1})
	return tr
}

func directedManyChildMaps() *Trace {
	tr := &Trace{Property: "C03", Config: Config{Profile: "crash", Slab: 8192, CollLimit: 255, OracleStride: 100000, MaxSteps: 400}}
	t := TypeInfo{N: 0}
	tr.Steps = append(tr.Steps, Step{Op: "new", CID: 1, Sub: "arr", Owner: 1, T: &t})
	for i := 0; i < 300; i++ {
		// every child map holds one distinct entry, so that a child decoded with another child's extra data is noticed
		tr.Steps = append(tr.Steps, Step{Op: "a.append", C: 1, V: &VSpec{Map: &CSpec{CID: 10 + i, T: TypeInfo{N: 1},
			K: []VSpec{{U: u64p(uint64(1000 + i))}}, V: []VSpec{{U: u64p(uint64(i))}}}}})
	}
	tr.Steps = append(tr.Steps, Step{Op: "commit", Flavour: "fc", Workers: 1})
	return tr
}

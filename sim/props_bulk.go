package sim

// C17: bulk build, copy and byte conversion give equivalent, valid, independent values.

func init() {
	stdProp(&PropSpec{
		ID: "C17", Level: "exploration",
		Verdict: []string{"bulk.", "copy.", "bytes.", "struct.", "inline.", "witness.verify", "reach.", "deep.", "res.", "size.", "panic", "reopen", "reg.parse"},
		Rule: "bulk steps inside ordinary histories: batch-build arrays from generated streams (length 0..3000, element sizes from 1 byte to the inline limit, so that the last leaf / last index slab is left underfull at varying levels) and from existing containers, batch-copy maps with the source's seed and order (default and adversarial digesters; in a share of the builds the element stream first suffers a delivery fault - one element delivered twice, or two neighbours swapped - into a scratch storage: the build may refuse, but an accepted result must enumerate exactly Count() distinct keys, serve a lookup of every key and pass the structural verifier), CanCopyNonRefSimple/CopyNonRefSimple on every kind of container (inlined or standalone, with/without references, nested containers, values at the inline boundary), byte-slice<->byte-array both ways around the fast-path threshold; element providers that fail in the middle of the stream (the build must report it); a burst of 20-150 insertions into a freshly built container through the handle the build returned; larger sources (several index slabs per level) in a third of the runs; afterwards sources and results keep being mutated, committed, reloaded and disposed of independently; oracles: content vs model, structure of the result by the independent parser right after the bulk step, copy predicate, reachability with both as roots. Non-trivial = a batch-built container of >= 3 slabs and a successful copy occurred; distinct by trace hash",
		ExpectedReach: []string{"bulk.array-built", "bulk.map-built", "bulk.from-existing", "bulk.empty", "copy.done", "copy.offered:false", "copy.of-inlined-or-nested", "bytes.to-array", "bytes.from-array", "bytes.from-array-refused", "reach.tree-height>=3", "fault.stream.duplicate", "fault.stream.reorder", "bulk.faulty-stream-refused", "bulk.child-in-stream", "bulk.child-in-map-stream"},
	}, stdHooks{
		config: func(r *Rng, tier string) Config { return baseConfig(r, "bulk", tier) },
		profile: func(r *Rng, cfg Config) *Profile {
			p := sizeAdversarialProfile(r, cfg)
			p.Name = "bulk"
			p.Owners = []uint64{1, 2, 0}[:r.Range(1, 3)]
			p.W["bulk.arr"] = 8
			p.W["bulk.map"] = 6
			p.W["copy"] = 8
			p.W["bytes.toarr"] = 4
			p.W["bytes.fromarr"] = 3
			p.W["dispose"] = 3
			p.MaxRoots = r.Range(2, 5)
			if r.Sub("big").Chance(0.35) {
				// large sources: batch-built maps with several index slabs per level
				p.MaxElems = 800
				p.W["m.fill"], p.W["a.fill"] = 9, 5
				p.RootMapShare = 0.7
			}
			if r.Chance(0.5) {
				// small maps whose keys collide on every digest level (last-level lists), some of them long keys
				p.LongKeyProb = 0.2
				p.DigSpec = func(r *Rng) *DigesterSpec {
					if r.Chance(0.3) {
						return nil
					}
					return &DigesterSpec{Levels: r.Range(1, 3), Alpha: [4]uint64{[]uint64{2, 4, 8, 64}[r.Intn(4)], []uint64{0, 1, 4}[r.Intn(3)], 1, 0}, Salt: r.U64()}
				}
			}
			return p
		},
		setup: func(w *World) {
			w.AfterStep = func(w *World, st *Step) *Violation {
				switch st.Op {
				case "bulk.arr", "bulk.map", "copy", "bytes.toarr":
					if v := w.regCheck(regWhich{structure: true, reach: true, witness: true, sizes: true, inline: true}); v != nil {
						return v
					}
					return w.DeepLive(cmpOpts{order: true})
				}
				return nil
			}
		},
		check: func(w *World, final bool) *Violation {
			if v := w.DeepLive(cmpOpts{lookups: true, order: true}); v != nil {
				return v
			}
			return w.regCheck(regWhich{structure: true, reach: true, witness: true, inline: true})
		},
		nontrivial: func(w *World, run *Stats, levels, slabs int) bool {
			return run.C["bulk.array-built"]+run.C["bulk.map-built"] > 0 && run.C["copy.done"] > 0 && slabs >= 3
		},
	})
}

package sim

// C20: the storage health check accepts exactly the healthy storages.

import (
	"bytes"
	"encoding/binary"
	"encoding/json"
	"fmt"
	"sort"

	"github.com/onflow/atree"
)

type corruption struct {
	Kind  string `json:"kind"`  // delete-ref | orphan | double-ref.meta | double-ref.elem | cross-owner
	Level string `json:"level"` // register | api | api-committed
	ID    RegID  `json:"id"`    // the slab the corruption is about
	ID2   RegID  `json:"id2,omitempty"`
	Var   int    `json:"var,omitempty"` // cross-owner: which foreign address / index the slab is moved to
}

func (c corruption) String() string { b, _ := json.Marshal(c); return string(b) }

func freshLoaded(l *SimLedger) (*atree.PersistentSlabStorage, error) {
	st := atree.NewPersistentSlabStorage(atree.NewLedgerBaseStorage(l), encMode, decMode, MakeStorableDecoder(nil), MakeTypeInfoDecoder(nil))
	var ids []atree.SlabID
	for _, id := range l.SortedIDs() {
		ids = append(ids, id.SlabID())
	}
	if err := st.BatchPreload(ids, 4); err != nil {
		return st, err
	}
	return st, nil
}

func idSetString(ids []atree.SlabID) string {
	var out []RegID
	for _, id := range ids {
		out = append(out, RegIDOf(id))
	}
	sort.Slice(out, func(i, j int) bool { return regLess(out[i], out[j]) })
	return fmt.Sprint(out)
}

func regSetString(m map[RegID]bool) string {
	var out []RegID
	for id := range m {
		out = append(out, id)
	}
	sort.Slice(out, func(i, j int) bool { return regLess(out[i], out[j]) })
	return fmt.Sprint(out)
}

// reachableFrom: everything the parser reaches from root (excluding root), following index children,
// element references and external groups; dangling targets are reported separately.
func reachableFrom(l *SimLedger, root RegID) (resolved, broken map[RegID]bool) {
	resolved, broken = map[RegID]bool{}, map[RegID]bool{}
	var visit func(id RegID)
	visit = func(id RegID) {
		raw, ok := l.Regs[id]
		if !ok {
			return
		}
		p, err := ParseRegister(id, raw)
		if err != nil {
			return
		}
		var next []RegID
		if p.IsMeta() {
			for _, ch := range p.Children {
				next = append(next, RegID{p.ChildOwner, ch.Index})
			}
		} else {
			er, gr := p.Refs()
			next = append(append(next, er...), gr...)
		}
		for _, n := range next {
			if _, ok := l.Regs[n]; !ok {
				broken[n] = true
				continue
			}
			if !resolved[n] {
				resolved[n] = true
				visit(n)
			}
		}
	}
	visit(root)
	return
}

func init() {
	ps := &PropSpec{
		ID: "C20", Level: "fault_enumeration",
		Verdict: []string{"health."},
		Rule: "for sampled healthy ledgers (mixed histories, after a commit): (i) a fresh storage with every slab loaded must pass CheckStorageHealth with the model's root count and return exactly the model's root set, and GetAllChildReferences of every root must return exactly the reference set the independent parser reaches, no broken ones; (ii) enumerated for EVERY slab of the ledger: delete a referenced register; add an unreferenced register (re-addressed copy) beyond the expected root count; make a second parent reference an already-referenced slab (index-slab child header patched; element-level through a harness value that stores a raw slab reference, so the library writes a well-formed register); re-address an element-referenced slab to another owner; a reference that lives inside a large-value slab (a wrapper around a slab reference stored in a slab of its own: healthy, and unhealthy once the referenced register is deleted); a second reference placed in the very container (same parent slab) that already holds the first; histories that dispose of every container (zero expected roots) plus one added register - each at the register level (fresh storage, everything loaded) and, for deletion and double reference, through the storage API on the live storage before and after a commit; the health check must fail for every one, and the reference query must list a deleted slab as broken and the rest as the parser sees it. Non-trivial = a ledger with >= 4 slabs incl. an element-level reference; distinct by trace hash",
		ExpectedReach: []string{"health.positive", "health.corruption.delete-ref.register", "health.corruption.delete-ref.api", "health.corruption.delete-ref.api-committed", "health.corruption.orphan.register", "health.corruption.double-ref.meta.register", "health.corruption.double-ref.elem.api", "health.corruption.cross-owner.register", "health.refs-checked", "health.corruption.orphan.empty.register", "health.corruption.double-ref.same-parent.api", "health.live-checked"},
	}
	type aux struct {
		C *corruption `json:"corruption,omitempty"`
	}

	// liveHealth: the health check and the reference query on the LIVE storage in the middle of a history (pending
	// changes, slabs in memory that were traversed before and restructured since): a healthy state all the same.
	liveHealth := func(w *World) *Violation {
		vl, err := w.ViewLedger()
		if err != nil {
			return nil
		}
		got, err := atree.CheckStorageHealth(w.Storage, -1)
		if err != nil {
			return &Violation{Class: "health.false-alarm.live", Step: w.StepNo, Msg: fmt.Sprintf("CheckStorageHealth rejects the live storage of a healthy history (%d slabs in view): %v", len(vl.Regs), err)}
		}
		want := map[RegID]bool{}
		for _, r := range w.Model.Roots() {
			want[r.VID] = true
		}
		gotSet := map[RegID]bool{}
		for id := range got {
			gotSet[RegIDOf(id)] = true
		}
		if regSetString(want) != regSetString(gotSet) {
			return &Violation{Class: "health.roots.live", Step: w.StepNo, Msg: fmt.Sprintf("CheckStorageHealth on the live storage returns roots %s, model roots %s", regSetString(gotSet), regSetString(want))}
		}
		for _, r := range w.Model.Roots() {
			refs, brokenRefs, err := w.Storage.GetAllChildReferences(r.VID.SlabID())
			if err != nil {
				return &Violation{Class: "health.refs.live", Step: w.StepNo, Msg: fmt.Sprintf("GetAllChildReferences(%s) failed on the live storage: %v", r.VID, err)}
			}
			resolved, _ := reachableFrom(vl, r.VID)
			if len(brokenRefs) != 0 || idSetString(refs) != regSetString(resolved) {
				return &Violation{Class: "health.refs.live", Step: w.StepNo, Msg: fmt.Sprintf("GetAllChildReferences(%s) on the live storage = %s broken %s; the parser reaches %s", r.VID, idSetString(refs), idSetString(brokenRefs), regSetString(resolved))}
			}
		}
		w.Stats.Inc("health.live-checked")
		return nil
	}

	// buildWorld replays tr (ending with a commit) and returns the world.
	buildWorld := func(tr *Trace) (*World, *Violation) {
		w := NewWorld(tr.Config, NewStats())
		stride := []int{2, 3, 5, 8, 13}[int(tr.Seed%5)]
		for i := range tr.Steps {
			st := tr.Steps[i]
			w.StepNo = i
			if v := w.execGuarded(&st); v != nil {
				return w, v
			}
			if tr.Seed%3 != 0 && i%stride == stride-1 {
				if v := liveHealth(w); v != nil {
					return w, v
				}
			}
		}
		if v := w.execGuarded(&Step{Op: "commit", Flavour: "fc", Workers: 1}); v != nil {
			return w, v
		}
		return w, nil
	}
	roots := func(w *World) []RegID {
		var out []RegID
		for _, r := range w.Model.Roots() {
			if !r.Volatile {
				out = append(out, r.VID)
			}
		}
		return out
	}

	positive := func(w *World, agg *Stats) *Violation {
		l := w.Ledger.Clone()
		st, err := freshLoaded(l)
		if err != nil {
			return &Violation{Class: "health.load", Msg: fmt.Sprintf("loading every slab of a healthy ledger failed: %v", err)}
		}
		rs := roots(w)
		got, err := atree.CheckStorageHealth(st, len(rs))
		if err != nil {
			return &Violation{Class: "health.false-alarm", Msg: fmt.Sprintf("CheckStorageHealth rejects a healthy storage (%d roots, %d slabs): %v", len(rs), len(l.Regs), err)}
		}
		want := map[RegID]bool{}
		for _, r := range rs {
			want[r] = true
		}
		gotSet := map[RegID]bool{}
		for id := range got {
			gotSet[RegIDOf(id)] = true
		}
		if regSetString(want) != regSetString(gotSet) {
			return &Violation{Class: "health.roots", Msg: fmt.Sprintf("CheckStorageHealth returns roots %s, model roots %s", regSetString(gotSet), regSetString(want))}
		}
		for _, r := range rs {
			refs, brokenRefs, err := st.GetAllChildReferences(r.SlabID())
			if err != nil {
				return &Violation{Class: "health.refs", Msg: fmt.Sprintf("GetAllChildReferences(%s) failed on a healthy storage: %v", r, err)}
			}
			resolved, _ := reachableFrom(l, r)
			if len(brokenRefs) != 0 || idSetString(refs) != regSetString(resolved) {
				return &Violation{Class: "health.refs", Msg: fmt.Sprintf("GetAllChildReferences(%s) = %s broken %s; the parser reaches %s", r, idSetString(refs), idSetString(brokenRefs), regSetString(resolved))}
			}
			agg.Inc("health.refs-checked")
		}
		agg.Inc("health.positive")
		return nil
	}

	// applyAndCheck applies one corruption and demands that the health check objects.
	applyAndCheck := func(tr *Trace, w *World, c corruption, agg *Stats) *Violation {
		nroots := len(roots(w))
		fail := func(st atree.SlabStorage, what string) *Violation {
			_, err := atree.CheckStorageHealth(st, nroots)
			agg.Inc("health.corruption." + c.Kind + "." + c.Level)
			if err == nil {
				return &Violation{Class: "health.missed." + c.Kind + "." + c.Level, Msg: fmt.Sprintf("CheckStorageHealth accepts a storage in which %s", what)}
			}
			return nil
		}
		switch c.Level {
		case "register":
			l := w.Ledger.Clone()
			var what string
			switch c.Kind {
			case "delete-ref":
				delete(l.Regs, c.ID)
				what = fmt.Sprintf("the referenced register %s was deleted", c.ID)
			case "orphan":
				l.Regs[c.ID2] = l.Regs[c.ID]
				what = fmt.Sprintf("a copy of register %s was added as unreferenced register %s", c.ID, c.ID2)
			case "double-ref.meta":
				p, err := ParseRegister(c.ID, l.Regs[c.ID])
				if err != nil || !p.IsMeta() || len(p.Children) < 2 {
					return nil
				}
				rec := 14
				if p.Kind == "map.meta" {
					rec = 18
				}
				raw := append([]byte{}, l.Regs[c.ID]...)
				base := len(raw) - rec*len(p.Children)
				i, j := int(c.ID2.Index)%len(p.Children), (int(c.ID2.Index)+1)%len(p.Children)
				copy(raw[base+rec*i:base+rec*i+8], raw[base+rec*j:base+rec*j+8])
				l.Regs[c.ID] = raw
				what = fmt.Sprintf("index slab %s references child %d twice (and child %d no more)", c.ID, j, i)
			case "cross-owner":
				// move the referenced register to another owner and patch the reference in its parent
				newID := RegID{c.ID.Owner ^ 0x10, c.ID.Index}
				switch c.Var {
				case 1:
					newID.Owner = 0 // the temporary address is a different address too
				case 2, 3:
					// another account, under an index the walk from the root has met before (the root's own)
					newID.Owner = c.ID.Owner ^ 0x3
					if c.Var == 3 {
						newID.Owner = c.ID.Owner ^ 0x10
					}
					if top := w.topRootOf(c.ID); top != nil {
						newID.Index = top.Index
					}
				}
				if _, taken := l.Regs[newID]; taken {
					return nil
				}
				var old, neu [16]byte
				binary.BigEndian.PutUint64(old[:], c.ID.Owner)
				binary.BigEndian.PutUint64(old[8:], c.ID.Index)
				binary.BigEndian.PutUint64(neu[:], newID.Owner)
				binary.BigEndian.PutUint64(neu[8:], newID.Index)
				pat := append([]byte{0xd8, 0xff, 0x50}, old[:]...)
				praw := l.Regs[c.ID2]
				k := bytes.Index(praw, pat)
				if k < 0 {
					return nil
				}
				nraw := append([]byte{}, praw...)
				copy(nraw[k+3:], neu[:])
				l.Regs[c.ID2] = nraw
				l.Regs[newID] = l.Regs[c.ID]
				delete(l.Regs, c.ID)
				what = fmt.Sprintf("slab %s referenced from %s was re-addressed to owner %#x", c.ID, c.ID2, newID.Owner)
			}
			st, err := freshLoaded(l)
			if err != nil {
				// the loader itself objects: the corruption cannot go unnoticed
				agg.Inc("health.corruption." + c.Kind + "." + c.Level)
				return nil
			}
			if v := fail(st, what); v != nil {
				return v
			}
			if c.Kind == "delete-ref" || c.Kind == "cross-owner" {
				// reference query: a deleted one is broken, the rest (references into other addresses included) as
				// the parser sees it
				top := w.topRootOf(c.ID)
				if top != nil {
					refs, brokenRefs, err := st.GetAllChildReferences(top.SlabID())
					if err != nil {
						return nil
					}
					resolved, broken := reachableFrom(l, *top)
					if idSetString(refs) != regSetString(resolved) || idSetString(brokenRefs) != regSetString(broken) {
						return &Violation{Class: "health.refs-broken", Msg: fmt.Sprintf("after corruption %s, GetAllChildReferences(%s) = %s broken %s; the parser reaches %s broken %s",
							c, *top, idSetString(refs), idSetString(brokenRefs), regSetString(resolved), regSetString(broken))}
					}
					agg.Inc("health.refs-checked")
				}
			}
			return nil
		case "api", "api-committed":
			// a second world built from the same trace, corrupted through the storage API
			w2, v := buildWorld(tr)
			if v != nil {
				return nil
			}
			// load everything
			var ids []atree.SlabID
			for _, id := range w2.Ledger.SortedIDs() {
				ids = append(ids, id.SlabID())
			}
			if err := w2.Storage.BatchPreload(ids, 2); err != nil {
				return nil
			}
			var what string
			switch c.Kind {
			case "delete-ref":
				if err := w2.Storage.Remove(c.ID.SlabID()); err != nil {
					return nil
				}
				what = fmt.Sprintf("the referenced slab %s was removed through the storage", c.ID)
			case "double-ref.elem":
				// a root array gets a second reference to an already referenced slab
				var host *MCont
				for _, r := range w2.Model.Roots() {
					if !r.IsMap && !r.Volatile && r.Owner == c.ID.Owner {
						host = r
						break
					}
				}
				if host == nil {
					return nil
				}
				h, v := w2.handle(host)
				if v != nil {
					return nil
				}
				if err := h.(*atree.Array).Append(RawRef(c.ID.SlabID())); err != nil {
					return nil
				}
				what = fmt.Sprintf("array %s holds a second reference to the already referenced slab %s", host.VID, c.ID)
			case "double-ref.same-parent":
				// the container whose root register already holds the reference gets a second one, so that
				// both references sit in the same parent slab (as long as the container stays a single slab)
				var host *MCont
				for _, r := range w2.Model.Roots() {
					if !r.Volatile && r.VID == c.ID2 {
						host = r
						break
					}
				}
				if host == nil {
					return nil
				}
				h, v := w2.handle(host)
				if v != nil {
					return nil
				}
				switch x := h.(type) {
				case *atree.Array:
					if err := x.Append(RawRef(c.ID.SlabID())); err != nil {
						return nil
					}
				case *atree.OrderedMap:
					if _, err := x.Set(w2.cmp, w2.hip, U64(1<<62+c.ID.Index), RawRef(c.ID.SlabID())); err != nil {
						return nil
					}
				}
				what = fmt.Sprintf("container %s references the slab %s twice", host.VID, c.ID)
			}
			if c.Level == "api-committed" {
				if err := w2.Storage.FastCommit(2); err != nil {
					return nil
				}
			}
			if v := fail(w2.Storage, what+map[string]string{"api": " (pending)", "api-committed": " (committed)"}[c.Level]); v != nil {
				return v
			}
			if c.Kind == "delete-ref" {
				// the reference query on the live storage: the removed slab is broken, the rest as the parser sees it
				top := w.topRootOf(c.ID)
				if top != nil && *top != c.ID {
					lv := w.Ledger.Clone()
					delete(lv.Regs, c.ID)
					resolved, broken := reachableFrom(lv, *top)
					refs, brokenRefs, err := w2.Storage.GetAllChildReferences(top.SlabID())
					if err == nil && (idSetString(refs) != regSetString(resolved) || idSetString(brokenRefs) != regSetString(broken)) {
						return &Violation{Class: "health.refs-broken", Msg: fmt.Sprintf("after removing %s through the storage (%s), GetAllChildReferences(%s) = %s broken %s; expected %s broken %s",
							c.ID, c.Level, *top, idSetString(refs), idSetString(brokenRefs), regSetString(resolved), regSetString(broken))}
					}
					agg.Inc("health.refs-checked")
				}
			}
			return nil
		}
		return nil
	}

	// emptyOrphans: the history disposed of every container.  An empty storage is healthy with zero roots,
	// and any register added to it is an unreferenced slab beyond the expected root count.
	emptyOrphans := func(w *World, agg *Stats) (*Violation, *corruption) {
		for k, raw := range [][]byte{versionBytes(3), versionBytes(1)} {
			c := corruption{Kind: "orphan.empty", Level: "register", ID: RegID{1, uint64(1<<41 + k)}}
			l := w.Ledger.Clone()
			l.Regs[c.ID] = raw
			st, err := freshLoaded(l)
			agg.Inc("health.corruption.orphan.empty.register")
			if err != nil {
				continue
			}
			if _, err := atree.CheckStorageHealth(st, 0); err == nil {
				return &Violation{Class: "health.missed.orphan.register", Msg: fmt.Sprintf("CheckStorageHealth accepts, with 0 expected roots, a storage to which the unreferenced register %s was added", c.ID)}, &c
			}
		}
		return nil, nil
	}

	// boxedRef: a reference that lives inside a large-value slab (a wrapper around a slab reference stored in a slab
	// of its own, made through the public NewStorableSlab).  The storage is healthy: the referenced array is no root;
	// deleting its register afterwards must be noticed.
	boxedRef := func(tr *Trace, w *World, agg *Stats) (*Violation, *corruption) {
		w2, v := buildWorld(tr)
		if v != nil {
			return nil, nil
		}
		var host *MCont
		for _, r := range w2.Model.Roots() {
			if !r.IsMap && !r.Volatile {
				host = r
				break
			}
		}
		if host == nil {
			return nil, nil
		}
		h, v := w2.handle(host)
		if v != nil {
			return nil, nil
		}
		x, err := atree.NewArray(w2.Storage, OwnerAddress(host.Owner), TypeInfo{N: 7})
		if err != nil || x.Append(U64(99)) != nil {
			return nil, nil
		}
		xid := RegIDOf(x.SlabID())
		if err := h.(*atree.Array).Append(BoxedRef(x.SlabID())); err != nil {
			return nil, nil
		}
		if err := w2.Storage.FastCommit(2); err != nil {
			return nil, nil
		}
		c := corruption{Kind: "boxed-ref", Level: "api-committed", ID: xid}
		want := map[RegID]bool{}
		for _, r := range roots(w) {
			want[r] = true
		}
		check := func(l *SimLedger, healthy bool) *Violation {
			st, err := freshLoaded(l)
			if err != nil {
				return nil
			}
			got, err := atree.CheckStorageHealth(st, len(want))
			if healthy {
				if err != nil {
					return &Violation{Class: "health.false-alarm", Msg: fmt.Sprintf("CheckStorageHealth rejects a healthy storage in which array %s is referenced from a large-value slab (a wrapper around a slab reference): %v", xid, err)}
				}
				gotSet := map[RegID]bool{}
				for id := range got {
					gotSet[RegIDOf(id)] = true
				}
				if regSetString(want) != regSetString(gotSet) {
					return &Violation{Class: "health.roots", Msg: fmt.Sprintf("with array %s referenced from a large-value slab, CheckStorageHealth returns roots %s, model roots %s", xid, regSetString(gotSet), regSetString(want))}
				}
				return nil
			}
			if err == nil {
				return &Violation{Class: "health.missed.delete-ref.register", Msg: fmt.Sprintf("CheckStorageHealth accepts a storage in which the register of array %s, referenced from a large-value slab, was deleted", xid)}
			}
			return nil
		}
		agg.Inc("health.corruption.boxed-ref.api-committed")
		if v := check(w2.Ledger.Clone(), true); v != nil {
			return v, &c
		}
		l := w2.Ledger.Clone()
		delete(l.Regs, xid)
		if v := check(l, false); v != nil {
			return v, &c
		}
		return nil, nil
	}

	enumerate := func(w *World) []corruption {
		var out []corruption
		l := w.Ledger
		view, rvx := BuildView(l.Clone())
		if rvx != nil {
			return nil
		}
		rootSet := map[RegID]bool{}
		for _, r := range roots(w) {
			rootSet[r] = true
		}
		// parents of element-level references
		parentOf := map[RegID]RegID{}
		for _, id := range l.SortedIDs() {
			p := view.Regs[id]
			er, gr := p.Refs()
			for _, x := range append(er, gr...) {
				parentOf[x] = id
			}
		}
		for _, id := range l.SortedIDs() {
			p := view.Regs[id]
			if !rootSet[id] {
				out = append(out, corruption{Kind: "delete-ref", Level: "register", ID: id})
				out = append(out, corruption{Kind: "delete-ref", Level: "api", ID: id})
				out = append(out, corruption{Kind: "delete-ref", Level: "api-committed", ID: id})
				out = append(out, corruption{Kind: "double-ref.elem", Level: "api", ID: id})
				out = append(out, corruption{Kind: "double-ref.elem", Level: "api-committed", ID: id})
			}
			out = append(out, corruption{Kind: "orphan", Level: "register", ID: id, ID2: RegID{id.Owner, 1<<41 + id.Index}})
			if p.IsMeta() && len(p.Children) >= 2 {
				out = append(out, corruption{Kind: "double-ref.meta", Level: "register", ID: id, ID2: RegID{0, id.Index % 7}})
			}
			if par, ok := parentOf[id]; ok {
				out = append(out, corruption{Kind: "cross-owner", Level: "register", ID: id, ID2: par})
				out = append(out, corruption{Kind: "cross-owner", Level: "register", ID: id, ID2: par, Var: 1 + int(id.Index%3)})
				if rootSet[par] {
					out = append(out, corruption{Kind: "double-ref.same-parent", Level: "api", ID: id, ID2: par})
					out = append(out, corruption{Kind: "double-ref.same-parent", Level: "api-committed", ID: id, ID2: par})
				}
			}
		}
		return out
	}

	ps.Run = func(ps *PropSpec, seed uint64, tier string, agg *Stats) *RunResult {
		r := NewRng(seed)
		cfg := baseConfig(r.Sub("config"), "health", tier)
		cfg.MaxSteps = r.Sub("len").Range(8, 50)
		if cfg.Slab > 2048 {
			cfg.Slab = 512
		}
		res := &RunResult{Seed: seed}
		tr := &Trace{Property: ps.ID, Seed: seed, Config: cfg}
		res.Trace = tr
		w := NewWorld(cfg, NewStats())
		prof := sizeAdversarialProfile(r.Sub("profile"), cfg)
		prof.Owners = []uint64{1, 2}
		prof.MaxElems = []int{8, 30, 80}[r.Sub("size").Intn(3)]
		prof.W["crash"], prof.W["dropcache"], prof.W["reopen"] = 0, 0, 0
		prof.W["a.fill"], prof.W["m.fill"] = 1, 1
		if r.Sub("restructure").Chance(0.35) {
			// long-lived trees restructured between two traversals of the live storage: bursts of removals in one
			// region and of insertions in another (a merge here, a split there, the child count back where it was)
			prof.W["a.fill"], prof.W["m.fill"], prof.W["a.drain"], prof.W["m.drain"] = 10, 8, 10, 8
			prof.W["new"] = 1
			prof.MaxRoots = 2
			prof.MaxElems = []int{80, 150, 300}[r.Sub("size2").Intn(3)]
			prof.NestProb = 0
			cfg.MaxSteps = r.Sub("len2").Range(30, 90)
			tr.Config.MaxSteps = cfg.MaxSteps
		}
		gen := NewGen(r.Sub("workload"), w, prof)
		for i := 0; i < cfg.MaxSteps; i++ {
			st := gen.Next()
			tr.Steps = append(tr.Steps, st)
			w.StepNo = i
			if v := w.execGuarded(&st); v != nil {
				res.Cut = v
				res.Hash = traceHash(tr)
				return res
			}
		}
		if r.Sub("empty").Chance(0.12) {
			// dispose of every container: the ledger ends empty (zero roots)
			for _, c := range w.Model.Roots() {
				st := Step{Op: "dispose", C: c.CID}
				tr.Steps = append(tr.Steps, st)
				w.StepNo = len(tr.Steps) - 1
				if v := w.execGuarded(&st); v != nil {
					res.Cut = v
					res.Hash = traceHash(tr)
					return res
				}
			}
			agg.Inc("health.emptied-ledgers")
		}
		res.Hash = traceHash(tr)
		res.Steps = len(tr.Steps)
		w, v := buildWorld(tr)
		if v != nil {
			if ps.isVerdict(v.Class) {
				res.Violation = v // the live-storage health check in the middle of the history
			} else {
				res.Cut = v
			}
			return res
		}
		agg.Add("health.live-checked", w.Stats.C["health.live-checked"])
		finish := func(v *Violation, c *corruption) *RunResult {
			if v != nil {
				if ps.isVerdict(v.Class) {
					a, _ := json.Marshal(aux{c})
					tr.Aux = a
					res.Violation = v
				} else {
					res.Cut = v
				}
			}
			return res
		}
		if v := positive(w, agg); v != nil {
			return finish(v, nil)
		}
		if len(roots(w)) == 0 {
			if v, c := emptyOrphans(w, agg); v != nil {
				return finish(v, c)
			}
		}
		if v, c := boxedRef(tr, w, agg); v != nil {
			return finish(v, c)
		}
		cs := enumerate(w)
		// every slab x every kind; the API-level ones rebuild the world, so large ledgers are sampled in quick
		limit := 60
		if tier == "thorough" {
			limit = 400
		}
		cr := r.Sub("corruptions")
		hasElemRef := false
		for i, c := range cs {
			if c.Kind == "cross-owner" {
				hasElemRef = true
			}
			if len(cs) > limit && cr.Intn(len(cs)) >= limit && i > 0 {
				continue
			}
			c := c
			if v := applyAndCheck(tr, w, c, agg); v != nil {
				return finish(v, &c)
			}
			res.Events++
		}
		if len(cs) <= limit {
			agg.Inc("health.ledgers-fully-enumerated")
		}
		res.NonTrivial = len(w.Ledger.Regs) >= 4 && hasElemRef
		agg.Add("events.steps", len(tr.Steps))
		return res
	}
	ps.Replay = func(ps *PropSpec, tr *Trace, agg *Stats) *RunResult {
		var a aux
		_ = json.Unmarshal(tr.Aux, &a)
		res := &RunResult{Seed: tr.Seed, Trace: tr, Steps: len(tr.Steps), Hash: traceHash(tr)}
		w, v := buildWorld(tr)
		if v != nil {
			if ps.isVerdict(v.Class) {
				res.Violation = v // the live-storage health check in the middle of the history
			} else {
				res.Cut = v
			}
			return res
		}
		if a.C == nil {
			v = positive(w, agg)
		} else if a.C.Kind == "boxed-ref" {
			v, _ = boxedRef(tr, w, agg)
		} else if a.C.Kind == "orphan.empty" {
			if len(roots(w)) == 0 {
				v, _ = emptyOrphans(w, agg)
			}
		} else {
			// the corruption names a slab: it must still exist in the (possibly shrunk) ledger
			if _, ok := w.Ledger.Regs[a.C.ID]; !ok {
				return res
			}
			v = applyAndCheck(tr, w, *a.C, agg)
		}
		if v != nil {
			if ps.isVerdict(v.Class) {
				res.Violation = v
			} else {
				res.Cut = v
			}
		}
		return res
	}
	Props[ps.ID] = ps
}

// topRootOf returns the model root whose tree contains register id (per the parser), or nil.
func (w *World) topRootOf(id RegID) *RegID {
	view, rvx := BuildView(w.Ledger.Clone())
	if rvx != nil {
		return nil
	}
	var rs []RegID
	for _, r := range w.Model.Roots() {
		if !r.Volatile {
			rs = append(rs, r.VID)
		}
	}
	wr, rvx := view.Walk(rs)
	if rvx != nil {
		return nil
	}
	if top, ok := wr.Owner[id]; ok {
		return &top
	}
	return nil
}

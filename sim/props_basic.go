package sim

import (
	"crypto/sha256"
	"encoding/hex"
	"fmt"
	"io"
	"os"
	"sort"
	"strings"
)

var wantEventDigest = os.Getenv("VERIF_EVENT_DIGEST") == "1"

type lineWriter struct{ w io.Writer }

func (l lineWriter) Write(b []byte) (int, error) {
	l.w.Write(b)
	l.w.Write([]byte("\n"))
	return len(b), nil
}

// C01, C02: containers against plain reference models.

type stdHooks struct {
	config     func(r *Rng, tier string) Config
	profile    func(r *Rng, cfg Config) *Profile
	setup      func(w *World)                        // install AfterStep etc.
	check      func(w *World, final bool) *Violation // stride/final oracles
	nontrivial func(w *World, run *Stats, levels, slabs int) bool
}

// stdRun builds Run/Replay for properties decided by the standard loop.
func stdProp(ps *PropSpec, h stdHooks) {
	exec := func(ps *PropSpec, tr *Trace, r *Rng, agg *Stats) *RunResult {
		run := NewStats()
		w := NewWorld(tr.Config, run)
		if h.setup != nil {
			h.setup(w)
		}
		var gen *Gen
		if r != nil {
			gen = NewGen(r.Sub("workload"), w, h.profile(r.Sub("profile"), tr.Config))
		}
		viol, cut := stdLoop(ps, w, tr, gen, func(final bool) *Violation { return h.check(w, final) })
		res := &RunResult{Seed: tr.Seed, Trace: tr, Violation: viol, Cut: cut, Steps: len(tr.Steps), Events: w.Events + int(w.Ledger.seq)}
		levels, slabs := 0, 0
		if viol == nil && cut == nil {
			if l, err := w.VirtualLedger(); err == nil {
				levels, slabs = w.shapeProbes(l, w.Model)
			}
		}
		if levels >= 2 {
			run.Inc("reach.height>=2")
		}
		if levels >= 3 {
			run.Inc("reach.height>=3")
		}
		if slabs >= 3 {
			run.Inc("reach.slabs>=3")
		}
		if slabs >= 20 {
			run.Inc("reach.slabs>=20")
		}
		res.NonTrivial = h.nontrivial == nil || h.nontrivial(w, run, levels, slabs)
		res.Hash = traceHash(tr)
		if wantEventDigest {
			// event-log hash for the determinism self-test: steps, step results, ledger I/O log, final registers
			var hh io.Writer
			sum := sha256.New()
			hh = sum
			if dump := os.Getenv("VERIF_EVENT_DUMP"); dump != "" {
				// developer aid: the hashed event log in clear, one item per line
				if f, err := os.Create(dump); err == nil {
					defer f.Close()
					hh = io.MultiWriter(sum, lineWriter{f})
				}
			}
			hh.Write(tr.JSON())
			for _, r := range w.Results {
				hh.Write([]byte(r))
			}
			// the order-relaxed commit with several workers issues its stores in arrival order (allowed to
			// differ), so events are hashed as a sorted multiset per commit phase and in order otherwise
			var phase []string
			flush := func() {
				sort.Strings(phase)
				for _, x := range phase {
					hh.Write([]byte(x))
				}
				phase = phase[:0]
			}
			cur := ""
			for _, e := range w.Ledger.Log {
				if e.Phase != cur {
					flush()
					cur = e.Phase
				}
				x := fmt.Sprintf("%d %s %d %x %s|", e.Kind, e.ID, e.Len, e.Hash, e.Phase)
				if strings.HasPrefix(e.Phase, "commit#") {
					phase = append(phase, x)
				} else {
					hh.Write([]byte(x))
				}
			}
			flush()
			hh.Write([]byte(ledgerDigest(w.Ledger)))
			if viol != nil {
				hh.Write([]byte(viol.Error()))
			}
			res.Digest = hex.EncodeToString(sum.Sum(nil)[:12])
		}
		for k, v := range w.Ledger.FaultsFired {
			run.Add("fault."+k, v)
		}
		run.Add("events.ledger-io", int(w.Ledger.seq))
		run.Add("events.steps", len(tr.Steps))
		agg.Merge(run)
		return res
	}
	ps.Run = func(ps *PropSpec, seed uint64, tier string, agg *Stats) *RunResult {
		r := NewRng(seed)
		tr := &Trace{Property: ps.ID, Seed: seed, Config: h.config(r.Sub("config"), tier)}
		return exec(ps, tr, r, agg)
	}
	ps.Replay = func(ps *PropSpec, tr *Trace, agg *Stats) *RunResult {
		return exec(ps, tr, nil, agg)
	}
	Props[ps.ID] = ps
}

func deepCheck(w *World, final bool) *Violation {
	return w.DeepLive(cmpOpts{lookups: true})
}

func arrayWeights() map[string]int {
	return map[string]int{
		"a.append": 14, "a.insert": 14, "a.set": 10, "a.remove": 12, "a.get": 8, "a.oob": 3,
		"settype": 1, "count": 2, "popall": 1, "reget": 2,
		"commit": 4, "dropcache": 2, "reopen": 2, "new": 1, "a.fill": 2, "a.drain": 2, "failstor": 2, "bulk.arr": 1, "probe.removed": 2,
	}
}

func mapWeights() map[string]int {
	return map[string]int{
		"m.set": 26, "m.remove": 12, "m.get": 8, "m.has": 4,
		"settype": 1, "count": 2, "popall": 1, "reget": 2,
		"commit": 4, "dropcache": 2, "reopen": 2, "new": 1, "m.fill": 2, "m.drain": 2, "failstor": 2, "bulk.map": 2, "probe.removed": 2,
	}
}

func init() {
	stdProp(&PropSpec{
		ID: "C01", Level: "exploration",
		Verdict: []string{"res.", "panic", "reopen", "rootid", "valueid", "nested.get", "deep.", "reject.category", "probe."},
		Rule: "seeded array histories (append/insert/set/remove/get/out-of-range/set-type/pop-all, nested and large values) at swarm slab sizes with commit/drop-cache/reopen interleaved; " +
			"non-trivial = some array spanned >= 3 slabs and the history contains at least one insert, one overwrite and one removal; distinct by trace hash",
	}, stdHooks{
		config: func(r *Rng, tier string) Config { return baseConfig(r, "array", tier) },
		profile: func(r *Rng, cfg Config) *Profile {
			p := &Profile{
				Name: "array", W: arrayWeights(), MaxRoots: r.Range(1, 3), Owners: []uint64{1, 2, 0x0102030405060708}[:r.Range(1, 3)],
				RootMapShare: 0, MapShare: 0.4, NestProb: []float64{0, 0.05, 0.15}[r.Intn(3)], MaxDepth: 2, WrapProb: 0.1,
				LargeProb: []float64{0, 0.05, 0.2}[r.Intn(3)], BoundaryProb: []float64{0.05, 0.2, 0.5}[r.Intn(3)],
				CompositeProb: 0.2, KeyUniverse: 24, NestedTargetBias: 0.25, KeepProb: 0, MaxElems: []int{12, 60, 200, 600}[r.Pick([]int{1, 3, 3, 1})],
				GrowBias: 0.6, ChildInit: 4,
			}
			if r.Sub("keep").Chance(0.3) {
				// containers handed back by a removal or an overwrite stay in use (they are arrays / maps like any other:
				// every in-range request on them must succeed), bulk pops through nested handles are frequent
				p.KeepProb = 0.5
				p.NestProb = 0.2
				p.NestedTargetBias = 0.5
				p.W["popall"] = 4
			}
			return p
		},
		check: deepCheck,
		nontrivial: func(w *World, run *Stats, levels, slabs int) bool {
			return slabs >= 3 && run.C["op.a.insert"]+run.C["op.a.append"] > 0 && run.C["op.a.set"] > 0 && run.C["op.a.remove"] > 0
		},
	})

	stdProp(&PropSpec{
		ID: "C02", Level: "exploration",
		Verdict: []string{"res.", "panic", "reopen", "rootid", "valueid", "nested.get", "deep.", "reject.category", "probe."},
		Rule: "seeded map histories (set new/existing, remove present/absent, get, has, set-type, pop-all; keys from a per-run universe incl. keys above the key inline limit; nested and large values) " +
			"at swarm slab sizes with commit/drop-cache/reopen interleaved; non-trivial = some map spanned >= 3 slabs and the history contains an update, a removal of a present key and a lookup of an absent key; distinct by trace hash",
	}, stdHooks{
		config: func(r *Rng, tier string) Config {
			c := baseConfig(r, "map", tier)
			if r.Chance(0.15) {
				c.HipShift = uint(r.Range(1, 3)) // "any hash distribution": collisions through the hash input under the default digester
			}
			return c
		},
		profile: func(r *Rng, cfg Config) *Profile {
			p := &Profile{
				Name: "map", W: mapWeights(), MaxRoots: r.Range(1, 3), Owners: []uint64{1, 2, 0x0102030405060708}[:r.Range(1, 3)],
				RootMapShare: 1, MapShare: 0.6, NestProb: []float64{0, 0.05, 0.15}[r.Intn(3)], MaxDepth: 2, WrapProb: 0.1,
				LargeProb: []float64{0, 0.05, 0.2}[r.Intn(3)], BoundaryProb: []float64{0.05, 0.2, 0.5}[r.Intn(3)],
				CompositeProb: 0.2, KeyUniverse: []int{8, 40, 150, 400}[r.Intn(4)], NestedTargetBias: 0.25, MaxElems: []int{12, 60, 200, 600}[r.Pick([]int{1, 3, 3, 1})],
				GrowBias: 0.6, ChildInit: 4, LongKeyProb: 0.06,
			}
			if r.Sub("keep").Chance(0.3) {
				// containers handed back by a removal or an overwrite stay in use; bulk pops through nested handles
				p.KeepProb = 0.5
				p.NestProb = 0.2
				p.NestedTargetBias = 0.5
				p.W["popall"] = 4
			}
			if r.Chance(0.3) {
				// a small share of benign harness digesters with a mild collision rate
				p.DigSpec = func(r *Rng) *DigesterSpec {
					return &DigesterSpec{Levels: r.Range(2, 4), Alpha: [4]uint64{uint64(r.Pick([]int{3, 1}) * 64), 0, 0, 0}, Salt: r.U64()}
				}
			}
			return p
		},
		check: deepCheck,
		nontrivial: func(w *World, run *Stats, levels, slabs int) bool {
			return slabs >= 3 && run.C["res.map.update"] > 0 && run.C["res.map.remove-present"] > 0 && run.C["reject.key"] > 0
		},
	})
}

package sim

// C12: maps stay correct under arbitrary hash collisions and enforce the limit.

import (
	"bytes"
	"fmt"

	"github.com/onflow/atree"
)

func init() {
	// The limit rule, computed by the model from its own digest table: a NEW key is refused iff
	// the entries already stored under its first-level digest, counted by distinct second-level
	// digest (by key when the digester has a single level), number more than the limit.
	collisionRefusalHook = func(w *World, c *MCont, km MVal, idx int) (string, bool) {
		if idx >= 0 {
			return "", false // updates are always accepted
		}
		seq := digestSeq(c, km)
		distinct := map[uint64]bool{}
		n := 0
		for _, k := range c.Keys {
			s := digestSeq(c, k)
			if s[0] != seq[0] {
				continue
			}
			n++
			if len(s) > 1 {
				distinct[s[1]] = true
			}
		}
		cnt := len(distinct)
		if len(seq) == 1 {
			cnt = n
		}
		if n > 0 && uint32(cnt) > w.Cfg.CollLimit {
			return fmt.Sprintf("%d entries with distinct second-level digests share first-level digest %#x (limit %d)", cnt, seq[0], w.Cfg.CollLimit), true
		}
		return "", false
	}

	execRefusedSetHook = func(w *World, st *Step, c *MCont, m *atree.OrderedMap, key atree.Value, km MVal, _ atree.Value, _ MVal) *Violation {
		w.Stats.Inc("c12.limit-refusal-predicted")
		pre, err := w.ViewLedger()
		if err != nil {
			return w.viol("harness", "view: %v", err)
		}
		preS, preR := w.PendingIDs()
		_, err = m.Set(w.cmp, w.hip, key, U64(7))
		if msg := checkErr(err, wantCollisionLimit); msg != "" {
			return w.viol("collide.limit", "map #%d: inserting new key %s must be refused by the collision limit %d: %s", c.CID, describe(km), w.Cfg.CollLimit, msg)
		}
		post, err := w.ViewLedger()
		if err != nil {
			return w.viol("harness", "view: %v", err)
		}
		postS, postR := w.PendingIDs()
		if fmt.Sprint(preS, preR) != fmt.Sprint(postS, postR) {
			return w.viol("collide.refusal-trace", "map #%d: the refused insertion changed the pending write set", c.CID)
		}
		for _, id := range post.SortedIDs() {
			if !bytes.Equal(pre.Regs[id], post.Regs[id]) {
				return w.viol("collide.refusal-trace", "map #%d: the refused insertion changed the bytes a commit would write for %s", c.CID, id)
			}
		}
		if len(pre.Regs) != len(post.Regs) {
			return w.viol("collide.refusal-trace", "map #%d: the refused insertion changed the set of registers a commit would write", c.CID)
		}
		if m.Count() != uint64(len(c.Keys)) {
			return w.viol("collide.refusal-trace", "map #%d: Count()=%d after a refused insertion, model %d", c.CID, m.Count(), len(c.Keys))
		}
		w.result("mset refused")
		return nil
	}

	// setlimit: the configured collision limit changes between two operations (no task is alive).  Groups
	// formed under a more generous limit then exceed the new one: new keys for those digests must be refused,
	// updates and removals keep working.
	extraOps["setlimit"] = func(w *World, st *Step) *Violation {
		w.Cfg.CollLimit = uint32(st.N)
		atree.VerifSetMaxCollisionLimitPerDigest(w.Cfg.CollLimit)
		w.Stats.Inc("c12.limit-changed")
		w.result("setlimit %d", st.N)
		return nil
	}
	extraGens["setlimit"] = func(g *Gen) (Step, bool) {
		return Step{Op: "setlimit", N: []int{0, 1, 2, 3, 7, 255}[g.R.Intn(6)]}, true
	}

	stdProp(&PropSpec{
		ID: "C12", Level: "exploration",
		Verdict: []string{"collide.", "res.map", "deep.", "struct.", "witness.verify", "flag.", "reach.", "order", "panic", "reopen", "reg.parse"},
		Rule: "root maps created with adversarial harness digesters: per-level alphabet sizes drawn independently from {1,2,3,5,64,unbounded} for 1-4 levels (all levels collide, first only, deep only ...), collision limit drawn from {0,1,2,3,7,255} and, in two runs out of three, changed between operations (groups formed under a generous limit then exceed a stricter one); insert/update/remove/pop histories over those keys with value sizes that push inline groups over the element limit (spill to an external group) and back (collapse); dictionary semantics step by step, group structure by the independent parser (nesting levels, digest order, external groups flagged and referenced once), iteration order incl. insertion order among full collisions, and the limit rule computed by the model from its own digest table (refusal = CollisionLimitError, no trace in write set or would-be committed bytes; updates always accepted). Non-trivial = an inline group existed, and a spill or a last-level list or a limit refusal occurred; distinct by trace hash",
		ExpectedReach: []string{"reach.inline-group", "reach.external-group", "reach.last-level-list", "reach.group-level>=2", "c12.limit-refusal-predicted", "res.map.update"},
	}, stdHooks{
		config: func(r *Rng, tier string) Config {
			c := baseConfig(r, "collide", tier)
			c.CollLimit = []uint32{0, 1, 2, 3, 7, 255, 255}[r.Intn(7)]
			if r.Chance(0.3) {
				c.HipShift = uint(r.Range(1, 3)) // collisions through the hash input, default digester
			}
			return c
		},
		profile: func(r *Rng, cfg Config) *Profile {
			alpha := func(r *Rng) uint64 { return []uint64{1, 2, 3, 5, 64, 0}[r.Intn(6)] }
			spec := DigesterSpec{Levels: r.Range(1, 4), Salt: r.U64()}
			for i := range spec.Alpha {
				spec.Alpha[i] = alpha(r)
			}
			w := mapWeights()
			w["m.set"] = 30
			w["m.remove"] = 14
			w["a.append"], w["a.remove"] = 2, 1
			w["setlimit"] = []int{0, 1, 2}[r.Intn(3)]
			w["copy"] = 2 // copies of maps with collision groups are maps with collision groups (structure, limit rule)
			return &Profile{
				Name: "collide", W: w, MaxRoots: r.Range(1, 2), Owners: []uint64{1, 2}[:r.Range(1, 2)],
				RootMapShare: 1, MapShare: 0.5, NestProb: []float64{0, 0.05}[r.Intn(2)], MaxDepth: 1, WrapProb: 0.05,
				LargeProb: []float64{0, 0.05}[r.Intn(2)], BoundaryProb: []float64{0.1, 0.4, 0.7}[r.Intn(3)],
				CompositeProb: 0.1, KeyUniverse: []int{8, 30, 90, 300}[r.Intn(4)], NestedTargetBias: 0.05,
				MaxElems: []int{12, 60, 200}[r.Pick([]int{1, 3, 2})], GrowBias: 0.6, ChildInit: 3, LongKeyProb: 0.04,
				DigSpec: func(*Rng) *DigesterSpec {
					if cfg.HipShift > 0 {
						return nil // library's default (pooled) digester; collisions come from the hash input
					}
					s := spec
					return &s
				},
			}
		},
		check: func(w *World, final bool) *Violation {
			if v := w.DeepLive(cmpOpts{lookups: true, order: true}); v != nil {
				return v
			}
			return w.regCheck(regWhich{structure: true, witness: true, flags: true, reach: true})
		},
		nontrivial: func(w *World, run *Stats, levels, slabs int) bool {
			return run.C["reach.inline-group"] > 0 && (run.C["reach.external-group"] > 0 || run.C["reach.last-level-list"] > 0 || run.C["c12.limit-refusal-predicted"] > 0)
		},
	})
}

package sim

// Minimisation (DESIGN §6): ddmin over the step list, accepting a candidate only
// if the same violation class persists.

import "time"

func sameFailure(ps *PropSpec, tr *Trace, class string) bool {
	res := safeReplay(ps, tr)
	return res != nil && res.Violation != nil && res.Violation.Class == class
}

func safeReplay(ps *PropSpec, tr *Trace) (res *RunResult) {
	return safeReplayInto(ps, tr, NewStats())
}

// safeReplayInto is safeReplay with the caller's statistics (directed scenarios count in the evidence).
func safeReplayInto(ps *PropSpec, tr *Trace, agg *Stats) (res *RunResult) {
	defer func() {
		if r := recover(); r != nil {
			res = nil
		}
	}()
	cp := *tr
	cp.Steps = append([]Step(nil), tr.Steps...)
	return ps.Replay(ps, &cp, agg)
}

// Shrink returns a minimised copy of tr that still fails with the same class.
func Shrink(ps *PropSpec, tr *Trace, class string, failedAt int, budget time.Duration) *Trace {
	deadline := time.Now().Add(budget)
	cur := *tr
	cur.Steps = append([]Step(nil), tr.Steps...)
	// cut everything after the failing step first
	if failedAt+1 < len(cur.Steps) {
		cand := cur
		cand.Steps = cur.Steps[:failedAt+1]
		if sameFailure(ps, &cand, class) {
			cur = cand
		}
	}
	n := 2
	for len(cur.Steps) >= 2 && time.Now().Before(deadline) {
		chunk := (len(cur.Steps) + n - 1) / n
		reduced := false
		for start := 0; start < len(cur.Steps) && time.Now().Before(deadline); start += chunk {
			end := start + chunk
			if end > len(cur.Steps) {
				end = len(cur.Steps)
			}
			cand := cur
			cand.Steps = append(append([]Step(nil), cur.Steps[:start]...), cur.Steps[end:]...)
			if len(cand.Steps) == 0 {
				continue
			}
			if sameFailure(ps, &cand, class) {
				cur = cand
				if n > 2 {
					n--
				}
				reduced = true
				break
			}
		}
		if !reduced {
			if chunk <= 1 {
				break
			}
			n *= 2
			if n > len(cur.Steps) {
				n = len(cur.Steps)
			}
		}
	}
	// per-step simplifications: shrink repeat counts of composite steps, then worker counts
	for i := range cur.Steps {
		for cur.Steps[i].N > 1 && time.Now().Before(deadline) {
			cand := cur
			cand.Steps = append([]Step(nil), cur.Steps...)
			cand.Steps[i].N = cur.Steps[i].N / 2
			if !sameFailure(ps, &cand, class) {
				cand.Steps[i].N = cur.Steps[i].N - 1
				if !sameFailure(ps, &cand, class) {
					break
				}
			}
			cur = cand
		}
	}
	for i := range cur.Steps {
		if !time.Now().Before(deadline) {
			break
		}
		st := cur.Steps[i]
		if st.Workers > 1 {
			cand := cur
			cand.Steps = append([]Step(nil), cur.Steps...)
			cand.Steps[i].Workers = 1
			if sameFailure(ps, &cand, class) {
				cur = cand
			}
		}
	}
	return &cur
}

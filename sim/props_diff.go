package sim

// C08: the read cache is transparent — one container-step sequence under different
// storage schedules (placements of commit / drop-cache / reopen) must give the same
// results, and (without compact encoding) byte-identical final registers.

import (
	"bytes"
	"encoding/json"
	"fmt"
	"github.com/onflow/atree"
)

// SchedSpec places storage-schedule actions between the steps of a base trace by rule,
// so that it stays meaningful when a shrinking pass removes steps.
type SchedSpec struct {
	Mode string  `json:"mode"` // none | every | random
	K    int     `json:"k,omitempty"`
	Act  string  `json:"act,omitempty"` // commit | commit+drop | reopen | mixed
	Seed uint64  `json:"seed,omitempty"`
	P    float64 `json:"p,omitempty"`
}

func (s SchedSpec) String() string { b, _ := json.Marshal(s); return string(b) }

type schedRun struct {
	w       *World
	results []string
	viol    *Violation
	final   map[RegID][]byte
}

// runWithSchedule executes steps under sched; it ends with a commit.
func runWithSchedule(cfg Config, steps []Step, sched SchedSpec, stats *Stats, endCheck bool) *schedRun {
	w := NewWorld(cfg, stats)
	sr := NewRng(sched.Seed).Sub("sched")
	out := &schedRun{w: w}
	cr := NewRng(sched.Seed).Sub("commit-flavour")
	commitStep := func(op string) *Step {
		// both commit flavours and several worker counts: the result must not depend on them either
		fl := "fc"
		if cr.Chance(0.4) {
			fl = "nfc"
		}
		return &Step{Op: op, Flavour: fl, Workers: []int{1, 2, 4}[cr.Intn(3)]}
	}
	act := func(kind string) *Violation {
		switch kind {
		case "commit":
			return w.execGuarded(commitStep("commit"))
		case "commit+drop":
			if v := w.execGuarded(commitStep("commit")); v != nil {
				return v
			}
			return w.execGuarded(&Step{Op: "dropcache"})
		case "drop":
			return w.execGuarded(&Step{Op: "dropcache"})
		case "reopen":
			return w.execGuarded(commitStep("reopen"))
		case "faulted-read":
			// commit, evict, then one read-only traversal of every root during which the k-th ledger read or the k-th
			// element-decoder call fails once (the traversal's outcome is ignored): a failed read may not leave
			// anything behind in the cache, so everything after it is served as if it had not happened
			if v := w.execGuarded(commitStep("commit")); v != nil {
				return v
			}
			if v := w.execGuarded(&Step{Op: "dropcache"}); v != nil {
				return v
			}
			k := 1 + cr.Intn(6)
			useDecode := cr.Chance(0.5)
			for _, r := range w.Model.Roots() {
				if r.Volatile {
					continue
				}
				w.Ctl.Reset()
				if useDecode {
					w.Ctl.FailAt["decode"] = k
				} else {
					w.Ledger.SetPlan(&FaultPlan{FailReadAt: map[int]bool{k: true}})
				}
				func() {
					defer func() { _ = recover() }()
					if v, err := w.openRoot(w.Storage, r); err == nil {
						switch x := v.(type) {
						case *atree.Array:
							_ = x.IterateReadOnly(func(atree.Value) (bool, error) { return true, nil })
						case *atree.OrderedMap:
							_ = x.IterateReadOnly(func(atree.Value, atree.Value) (bool, error) { return true, nil })
						}
					}
				}()
				w.Ledger.SetPlan(nil)
				w.Ctl.Reset()
			}
			w.Handles = map[int]any{}
			return nil
		case "preload":
			// commit, evict, then fill the read cache in bulk (serial or parallel decode; ids that do not
			// exist sit between the real ones): what the cache then serves must be what a fresh decode serves
			if v := w.execGuarded(commitStep("commit")); v != nil {
				return v
			}
			return w.execGuarded(&Step{Op: "preload", N: []int{100, 100, 60}[cr.Intn(3)], Workers: []int{1, 2, 4}[cr.Intn(3)], Pos: cr.U64() % (1 << 32), Keep: true})
		}
		return nil
	}
	for i := range steps {
		w.StepNo = i
		st := steps[i]
		if v := w.execGuarded(&st); v != nil {
			out.viol = v
			out.results = w.Results
			return out
		}
		var kind string
		switch sched.Mode {
		case "every":
			if sched.K > 0 && (i+1)%sched.K == 0 {
				kind = sched.Act
			}
		case "random":
			if sr.Chance(sched.P) {
				kind = sched.Act
			}
		}
		if kind == "mixed" {
			kind = []string{"commit", "commit+drop", "reopen", "drop", "preload", "faulted-read"}[sr.Intn(6)]
		}
		if kind != "" {
			nres := len(w.Results)
			if v := act(kind); v != nil {
				out.viol = v
				out.results = w.Results
				return out
			}
			w.Results = w.Results[:nres] // schedule actions are not part of the compared results
			stats.Inc("sched." + kind)
		}
	}
	w.StepNo = len(steps)
	nres := len(w.Results)
	if v := act("commit"); v != nil {
		out.viol = v
	}
	w.Results = w.Results[:nres]
	if out.viol == nil && endCheck {
		if v := w.DeepLive(cmpOpts{lookups: true, order: true}); v != nil {
			out.viol = v
		} else if v := w.regCheck(regWhich{structure: true, witness: true}); v != nil {
			out.viol = v
		} else if v := w.Recover(w.Ledger.Clone(), w.Model, cmpOpts{order: true}, "recover.final"); v != nil {
			out.viol = v
		}
	}
	out.results = w.Results
	out.final = w.Ledger.Regs
	return out
}

func diffRegs(a, b map[RegID][]byte) string {
	ids := map[RegID]bool{}
	for k := range a {
		ids[k] = true
	}
	for k := range b {
		ids[k] = true
	}
	var first *RegID
	n := 0
	for id := range ids {
		if !bytes.Equal(a[id], b[id]) {
			n++
			idc := id
			if first == nil || regLess(idc, *first) {
				first = &idc
			}
		}
	}
	if n == 0 {
		return ""
	}
	return fmt.Sprintf("%d register(s) differ, first %s (%d vs %d bytes)", n, *first, len(a[*first]), len(b[*first]))
}

func compareRuns(base, other *schedRun, what string, wantBytes bool) *Violation {
	if other.viol != nil {
		return &Violation{Class: "diff.outcome", Step: other.viol.Step,
			Msg: fmt.Sprintf("the history passes every oracle under the base schedule but fails under %s: [%s] %s", what, other.viol.Class, other.viol.Msg)}
	}
	n := len(base.results)
	if len(other.results) < n {
		n = len(other.results)
	}
	for i := 0; i < n; i++ {
		if base.results[i] != other.results[i] {
			return &Violation{Class: "diff.results", Step: i,
				Msg: fmt.Sprintf("result %d differs under %s: %q vs %q", i, what, base.results[i], other.results[i])}
		}
	}
	if len(base.results) != len(other.results) {
		return &Violation{Class: "diff.results", Step: n, Msg: fmt.Sprintf("number of results differs under %s: %d vs %d", what, len(base.results), len(other.results))}
	}
	if wantBytes {
		if d := diffRegs(base.final, other.final); d != "" {
			return &Violation{Class: "diff.bytes", Step: len(base.results), Msg: fmt.Sprintf("final registers differ under %s: %s", what, d)}
		}
	}
	return nil
}

func schedVariants(r *Rng, n int) []SchedSpec {
	out := []SchedSpec{
		{Mode: "every", K: 1, Act: "commit+drop"},
		{Mode: "every", K: 1, Act: "reopen"},
	}
	acts := []string{"commit", "commit+drop", "reopen", "mixed", "drop", "preload", "mixed", "faulted-read"}
	for len(out) < n {
		if r.Chance(0.4) {
			out = append(out, SchedSpec{Mode: "every", K: r.Range(2, 9), Act: acts[r.Intn(len(acts))], Seed: r.U64()})
		} else {
			out = append(out, SchedSpec{Mode: "random", P: []float64{0.05, 0.2, 0.5}[r.Intn(3)], Act: acts[r.Intn(len(acts))], Seed: r.U64()})
		}
	}
	return out
}

func init() {
	ps := &PropSpec{
		ID: "C08", Level: "exploration",
		Verdict:       []string{"diff."},
		Rule:          "one generated container-step sequence (arrays, maps, nested, large and boundary-sized values; handles kept across commits, nested handles re-obtained after eviction, all handles after reopen) is executed under the base schedule 'no commit until the end' and under >= 4 other placements of {commit, commit+drop-cache, drop-cache, reopen, commit+evict+bulk preload (serial or parallel, ids that do not exist in between), commit+evict+a traversal during which one ledger read or element-decoder call fails} (always including 'after every step' for commit+drop-cache and for reopen); step results must be equal, every execution must pass content/structure/recovery oracles, and in the byte-identical profile (no composite types) the final registers must be byte-identical; in the compact profile only logical content and order against the current seed are compared. Non-trivial = >= 3 slabs and the schedules fired >= 10 actions; distinct by trace hash",
		ExpectedReach: []string{"sched.commit+drop", "sched.reopen", "sched.drop", "profile.byte-identical", "profile.compact"},
	}
	type aux struct {
		Variant SchedSpec `json:"variant"`
	}
	runPair := func(tr *Trace, variant SchedSpec, agg *Stats) (*Violation, *schedRun) {
		wantBytes := tr.Config.Profile == "c08-bytes"
		base := runWithSchedule(tr.Config, tr.Steps, SchedSpec{Mode: "none"}, NewStats(), true)
		if base.viol != nil {
			return &Violation{Class: "base." + base.viol.Class, Step: base.viol.Step, Msg: base.viol.Msg}, base
		}
		other := runWithSchedule(tr.Config, tr.Steps, variant, agg, true)
		return compareRuns(base, other, "schedule "+variant.String(), wantBytes), base
	}
	ps.Run = func(ps *PropSpec, seed uint64, tier string, agg *Stats) *RunResult {
		r := NewRng(seed)
		cfg := baseConfig(r.Sub("config"), "c08-bytes", tier)
		cfg.MaxSteps = r.Sub("len").Range(20, 160)
		compact := r.Sub("compact").Chance(0.35)
		if compact {
			cfg.Profile = "c08-compact"
			agg.Inc("profile.compact")
		} else {
			agg.Inc("profile.byte-identical")
		}
		tr := &Trace{Property: ps.ID, Seed: seed, Config: cfg}
		// generate the base trace online under the base schedule
		run := NewStats()
		w := NewWorld(cfg, run)
		p := nestedProfile(r.Sub("profile"), cfg)
		p.Name = "c08"
		p.Owners = []uint64{1, 2} // temporary-owner containers do not survive a reopen by definition
		p.NestedTargetBias = 0.4
		p.NestProb = []float64{0.05, 0.15, 0.3}[r.Sub("nest").Intn(3)]
		p.KeepProb = 0.1
		p.ReattachProb = 0.03
		p.W["commit"], p.W["dropcache"], p.W["reopen"] = 0, 0, 0
		if !compact {
			p.CompositeProb = 0
		}
		gen := NewGen(r.Sub("workload"), w, p)
		res := &RunResult{Seed: seed, Trace: tr}
		for i := 0; i < cfg.MaxSteps; i++ {
			st := gen.Next()
			tr.Steps = append(tr.Steps, st)
			w.StepNo = i
			if v := w.execGuarded(&st); v != nil {
				res.Cut = v
				break
			}
		}
		res.Steps = len(tr.Steps)
		res.Hash = traceHash(tr)
		if res.Cut != nil {
			return res
		}
		nvar := 4
		if tier == "thorough" {
			nvar = 7
		}
		slabs := 0
		for _, variant := range schedVariants(r.Sub("variants"), nvar) {
			v, base := runPair(tr, variant, agg)
			res.Events += base.w.Events + int(base.w.Ledger.seq)
			if l, s := base.w.shapeProbes(base.w.Ledger, base.w.Model); l >= 0 && s > slabs {
				slabs = s
			}
			if v != nil {
				if ps.isVerdict(v.Class) {
					a, _ := json.Marshal(aux{variant})
					tr.Aux = a
					res.Violation = v
				} else {
					res.Cut = v
				}
				break
			}
		}
		agg.Add("events.steps", len(tr.Steps))
		acts := agg.C["sched.commit"] + agg.C["sched.commit+drop"] + agg.C["sched.reopen"] + agg.C["sched.drop"]
		res.NonTrivial = slabs >= 3 && acts >= 10
		return res
	}
	ps.Replay = func(ps *PropSpec, tr *Trace, agg *Stats) *RunResult {
		var a aux
		_ = json.Unmarshal(tr.Aux, &a)
		v, _ := runPair(tr, a.Variant, agg)
		res := &RunResult{Seed: tr.Seed, Trace: tr, Steps: len(tr.Steps), Hash: traceHash(tr)}
		if v != nil {
			if ps.isVerdict(v.Class) {
				res.Violation = v
			} else {
				res.Cut = v
			}
		}
		return res
	}
	Props[ps.ID] = ps
}

package sim

// SimLedger — the simulated disk (DESIGN §2.3).  It implements atree.Ledger and
// is normally wrapped by the real atree.LedgerBaseStorage; SimBase plugs the same
// register file in directly as atree.BaseStorage.

import (
	"crypto/sha256"
	"encoding/binary"
	"errors"
	"fmt"
	"sort"

	"github.com/onflow/atree"
)

type RegID struct {
	Owner uint64
	Index uint64
}

func (r RegID) String() string { return fmt.Sprintf("0x%x.%d", r.Owner, r.Index) }

func RegIDOf(id atree.SlabID) RegID {
	return RegID{id.AddressAsUint64(), id.IndexAsUint64()}
}

func (r RegID) SlabID() atree.SlabID {
	var a atree.Address
	var i atree.SlabIndex
	binary.BigEndian.PutUint64(a[:], r.Owner)
	binary.BigEndian.PutUint64(i[:], r.Index)
	return atree.NewSlabID(a, i)
}

func regLess(a, b RegID) bool {
	if a.Owner != b.Owner {
		return a.Owner < b.Owner
	}
	return a.Index < b.Index
}

type IOKind uint8

const (
	IOGet IOKind = iota
	IOSet
	IODelete
	IOAlloc
)

func (k IOKind) String() string { return [...]string{"get", "set", "del", "alloc"}[k] }

type IOEvent struct {
	Seq   uint64
	Kind  IOKind
	ID    RegID
	Len   int
	Hash  [8]byte
	Phase string
	Fault bool // the call failed with an injected error
}

var ErrLedgerFault = errors.New("injected ledger fault")

// FaultPlan describes the faults for the current phase.  Positions are 1-based
// and count calls of the respective kind since the plan was installed.
type FaultPlan struct {
	FailWriteAt map[int]bool   // k-th write/delete fails (not applied)
	FailWriteID map[RegID]bool // every write/delete of these registers fails
	FailReadAt  map[int]bool   // k-th read fails
	FailAllocAt map[int]bool
	PanicWrite  bool // panic instead of error (crash inside the operation)
}

type SimLedger struct {
	Regs  map[RegID][]byte
	Alloc map[uint64]uint64 // owner -> last allocated index

	Log      []IOEvent
	LogOn    bool
	seq      uint64
	Phase    string
	InCommit bool

	plan                   *FaultPlan
	nWrite, nRead, nAlloc  int
	FaultsFired            map[string]int
	MonitorViolations      []string // always-on monitors (O-LEDGER)
	Yield                  func(site string, id RegID)
	writesThisPhase        []RegID
}

func NewSimLedger() *SimLedger {
	return &SimLedger{
		Regs:        map[RegID][]byte{},
		Alloc:       map[uint64]uint64{},
		FaultsFired: map[string]int{},
		LogOn:       true,
	}
}

// Clone returns an independent copy of the durable state (registers + allocator).
func (l *SimLedger) Clone() *SimLedger {
	c := NewSimLedger()
	for k, v := range l.Regs {
		c.Regs[k] = v // register byte slices are never mutated in place
	}
	for k, v := range l.Alloc {
		c.Alloc[k] = v
	}
	c.LogOn = false
	return c
}

func (l *SimLedger) SetPlan(p *FaultPlan) {
	l.plan = p
	l.nWrite, l.nRead, l.nAlloc = 0, 0, 0
}

func (l *SimLedger) BeginPhase(name string, commit bool) {
	l.Phase = name
	l.InCommit = commit
	l.writesThisPhase = l.writesThisPhase[:0]
}

func (l *SimLedger) WritesThisPhase() []RegID { return l.writesThisPhase }

func (l *SimLedger) SortedIDs() []RegID {
	ids := make([]RegID, 0, len(l.Regs))
	for id := range l.Regs {
		ids = append(ids, id)
	}
	sort.Slice(ids, func(i, j int) bool { return regLess(ids[i], ids[j]) })
	return ids
}

func (l *SimLedger) log(kind IOKind, id RegID, data []byte, fault bool) {
	l.seq++
	if !l.LogOn {
		return
	}
	ev := IOEvent{Seq: l.seq, Kind: kind, ID: id, Len: len(data), Phase: l.Phase, Fault: fault}
	if len(data) > 0 {
		h := sha256.Sum256(data)
		copy(ev.Hash[:], h[:8])
	}
	l.Log = append(l.Log, ev)
}

func keyToIndex(key []byte) (uint64, bool) {
	if len(key) != 1+8 || string(key[:1]) != atree.LedgerBaseStorageSlabPrefix {
		return 0, false
	}
	return binary.BigEndian.Uint64(key[1:]), true
}

func ownerOf(owner []byte) uint64 {
	var b [8]byte
	copy(b[8-len(owner):], owner)
	return binary.BigEndian.Uint64(b[:])
}

func (l *SimLedger) read(id RegID) ([]byte, error) {
	if l.Yield != nil {
		l.Yield("get", id)
	}
	l.nRead++
	if l.plan != nil && l.plan.FailReadAt[l.nRead] {
		l.FaultsFired["ledger.read-error"]++
		l.log(IOGet, id, nil, true)
		return nil, ErrLedgerFault
	}
	v := l.Regs[id]
	l.log(IOGet, id, v, false)
	return v, nil
}

func (l *SimLedger) write(id RegID, data []byte) error {
	if l.Yield != nil {
		l.Yield("set", id)
	}
	kind := IOSet
	if len(data) == 0 {
		kind = IODelete
	}
	if !l.InCommit {
		l.MonitorViolations = append(l.MonitorViolations,
			fmt.Sprintf("register %s %s outside a commit (phase %q)", id, kind, l.Phase))
	}
	if id.Owner == 0 {
		l.MonitorViolations = append(l.MonitorViolations,
			fmt.Sprintf("register %s of the temporary (zero) owner written (%s, phase %q)", id, kind, l.Phase))
	}
	l.nWrite++
	if l.plan != nil && (l.plan.FailWriteAt[l.nWrite] || l.plan.FailWriteID[id]) {
		l.FaultsFired["ledger.write-error"]++
		l.log(kind, id, data, true)
		if l.plan.PanicWrite {
			panic(injectedPanic{"ledger.write"})
		}
		return ErrLedgerFault
	}
	l.writesThisPhase = append(l.writesThisPhase, id)
	if len(data) == 0 {
		delete(l.Regs, id)
	} else {
		c := make([]byte, len(data))
		copy(c, data)
		l.Regs[id] = c
	}
	l.log(kind, id, data, false)
	return nil
}

func (l *SimLedger) alloc(owner uint64) (uint64, error) {
	l.nAlloc++
	if l.plan != nil && l.plan.FailAllocAt[l.nAlloc] {
		l.FaultsFired["ledger.alloc-error"]++
		return 0, ErrLedgerFault
	}
	l.Alloc[owner]++
	idx := l.Alloc[owner]
	l.log(IOAlloc, RegID{owner, idx}, nil, false)
	return idx, nil
}

// atree.Ledger

func (l *SimLedger) GetValue(owner, key []byte) ([]byte, error) {
	idx, ok := keyToIndex(key)
	if !ok {
		return nil, fmt.Errorf("unexpected ledger key %x", key)
	}
	return l.read(RegID{ownerOf(owner), idx})
}

func (l *SimLedger) SetValue(owner, key, value []byte) error {
	idx, ok := keyToIndex(key)
	if !ok {
		return fmt.Errorf("unexpected ledger key %x", key)
	}
	return l.write(RegID{ownerOf(owner), idx}, value)
}

func (l *SimLedger) ValueExists(owner, key []byte) (bool, error) {
	v, err := l.GetValue(owner, key)
	return len(v) > 0, err
}

func (l *SimLedger) AllocateSlabIndex(owner []byte) (atree.SlabIndex, error) {
	idx, err := l.alloc(ownerOf(owner))
	if err != nil {
		return atree.SlabIndex{}, err
	}
	var si atree.SlabIndex
	binary.BigEndian.PutUint64(si[:], idx)
	return si, nil
}

// SimBase exposes the same register file directly as atree.BaseStorage.
type SimBase struct{ L *SimLedger }

var _ atree.BaseStorage = &SimBase{}

func (b *SimBase) Store(id atree.SlabID, data []byte) error { return b.L.write(RegIDOf(id), data) }
func (b *SimBase) Retrieve(id atree.SlabID) ([]byte, bool, error) {
	v, err := b.L.read(RegIDOf(id))
	if err != nil {
		return nil, false, err
	}
	return v, len(v) > 0, nil
}
func (b *SimBase) Remove(id atree.SlabID) error { return b.L.write(RegIDOf(id), nil) }
func (b *SimBase) GenerateSlabID(a atree.Address) (atree.SlabID, error) {
	idx, err := b.L.alloc(binary.BigEndian.Uint64(a[:]))
	if err != nil {
		return atree.SlabID{}, err
	}
	var si atree.SlabIndex
	binary.BigEndian.PutUint64(si[:], idx)
	return atree.NewSlabID(a, si), nil
}
func (b *SimBase) SegmentCounts() int  { return len(b.L.Regs) }
func (b *SimBase) Size() int           { return 0 }
func (b *SimBase) BytesRetrieved() int { return 0 }
func (b *SimBase) BytesStored() int    { return 0 }
func (b *SimBase) SegmentsReturned() int { return 0 }
func (b *SimBase) SegmentsUpdated() int  { return 0 }
func (b *SimBase) SegmentsTouched() int  { return 0 }
func (b *SimBase) ResetReporter()        {}

func OwnerAddress(owner uint64) atree.Address {
	var a atree.Address
	binary.BigEndian.PutUint64(a[:], owner)
	return a
}

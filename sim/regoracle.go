package sim

// Register-level oracles built on the independent parser: structure & size band (C05),
// reported sizes (C06), canonical encoding & flags (C07), reachability (C09), inline rule (C10).

import (
	"bytes"
	"fmt"
	"sort"

	"github.com/onflow/atree"
)

type LedgerView struct {
	L     *SimLedger
	Regs  map[RegID]*PReg
	Sizes map[RegID]uint32 // ByteSize() reported by the library for DecodeSlab(register)
}

type regViol struct {
	class string
	msg   string
}

func rv(class, format string, args ...any) *regViol {
	return &regViol{class, fmt.Sprintf(format, args...)}
}

// libDecode asks the library to decode a register (used to obtain reported sizes and child storables).
func libDecode(id RegID, raw []byte) (atree.Slab, error) {
	return atree.DecodeSlab(id.SlabID(), raw, decMode, MakeStorableDecoder(nil), MakeTypeInfoDecoder(nil))
}

// BuildView parses every register of l.
func BuildView(l *SimLedger) (*LedgerView, *regViol) {
	v := &LedgerView{L: l, Regs: map[RegID]*PReg{}, Sizes: map[RegID]uint32{}}
	for _, id := range l.SortedIDs() {
		raw := l.Regs[id]
		p, err := ParseRegister(id, raw)
		if err != nil {
			return nil, rv("reg.parse", "register %s does not follow the documented format: %v", id, err)
		}
		v.Regs[id] = p
		slab, err := libDecode(id, raw)
		if err != nil {
			return nil, rv("reg.decode", "register %s written by the library cannot be decoded by the library: %v", id, err)
		}
		v.Sizes[id] = slab.ByteSize()
	}
	return v, nil
}

// ---- C07: canonical round trip and flags ----

func (v *LedgerView) CheckRoundTrip(id RegID) *regViol {
	raw := v.L.Regs[id]
	slab, err := libDecode(id, raw)
	if err != nil {
		return rv("reg.decode", "register %s cannot be decoded: %v", id, err)
	}
	if RegIDOf(slab.SlabID()) != id {
		return rv("rt.id", "decoded slab of register %s reports id %s", id, RegIDOf(slab.SlabID()))
	}
	re, err := atree.EncodeSlab(slab, encMode)
	if err != nil {
		return rv("rt.encode", "re-encoding decoded register %s failed: %v", id, err)
	}
	if !bytes.Equal(re, raw) {
		return rv("rt.bytes", "decode+encode of register %s is not the identity (%d -> %d bytes, first difference at %d)", id, len(raw), len(re), firstDiff(raw, re))
	}
	return nil
}

func firstDiff(a, b []byte) int {
	n := len(a)
	if len(b) < n {
		n = len(b)
	}
	for i := 0; i < n; i++ {
		if a[i] != b[i] {
			return i
		}
	}
	return n
}

// CheckFlags compares the head flags of every register with what the parser finds in the content.
// valueRoots is the set of registers that are roots of values according to the reference walk.
func (v *LedgerView) CheckFlags(valueRoots map[RegID]bool) *regViol {
	for _, id := range v.L.SortedIDs() {
		p := v.Regs[id]
		raw := v.L.Regs[id]
		isRoot, e1 := atree.IsRootOfAnObject(raw)
		hasPtr, e2 := atree.HasPointers(raw)
		hasLimit, e3 := atree.HasSizeLimit(raw)
		if e1 != nil || e2 != nil || e3 != nil {
			return rv("flag.query", "head query on register %s failed: %v %v %v", id, e1, e2, e3)
		}
		if isRoot != p.FlagRoot || hasPtr != p.FlagPointers || hasLimit == p.FlagNoSizeLimit {
			return rv("flag.query", "head queries on register %s disagree with the documented flag bits", id)
		}
		if isRoot != valueRoots[id] {
			return rv("flag.root", "register %s: root-of-a-value flag is %v, but the register %s the root of a container", id, isRoot, map[bool]string{true: "is", false: "is not"}[valueRoots[id]])
		}
		er, gr := p.Refs()
		wantPtr := len(er)+len(gr) > 0
		if p.IsMeta() {
			wantPtr = false
		}
		if hasPtr != wantPtr {
			return rv("flag.pointers", "register %s (%s): has-pointers flag is %v, content holds %d slab reference(s) and %d external group(s)", id, p.Kind, hasPtr, len(er), len(gr))
		}
		wantNoLimit := p.Kind == "storable" || p.Kind == "map.coll"
		if hasLimit == wantNoLimit {
			return rv("flag.sizelimit", "register %s (%s): size-limited flag is %v", id, p.Kind, hasLimit)
		}
	}
	return nil
}

// ---- reference walk over the parsed registers ----

type treeInfo struct {
	Root    RegID
	IsMap   bool
	Height  int
	Leaves  []RegID
	Slabs   []RegID // all slabs of the container tree itself (index + data), not auxiliary ones
	Count   uint64  // elements (arrays: from leaves; maps: single elements incl. groups)
}

type walkResult struct {
	Reached    map[RegID]int  // reference count per register
	Owner      map[RegID]RegID // register -> root of the top-level tree it belongs to
	ValueRoots map[RegID]bool
	Trees      []*treeInfo
	Inlined    int
	Groups     int
	XGroups    int
	Compact    int
	LargeVals  int
	Lists      int
	MaxGroupLevel int
}

// Walk traverses everything reachable from the given roots.
func (v *LedgerView) Walk(roots []RegID) (*walkResult, *regViol) {
	w := &walkResult{Reached: map[RegID]int{}, Owner: map[RegID]RegID{}, ValueRoots: map[RegID]bool{}}
	for _, r := range roots {
		w.Reached[r]++
		if rvx := v.walkContainer(w, r, r, true); rvx != nil {
			return nil, rvx
		}
	}
	return w, nil
}

func (v *LedgerView) walkContainer(w *walkResult, root RegID, top RegID, isValueRoot bool) *regViol {
	p := v.Regs[root]
	if p == nil {
		return rv("reach.dangling", "container root %s is referenced but no such register exists", root)
	}
	if p.Kind == "storable" {
		return rv("reach.kind", "register %s is a large-value slab but is used as a container root", root)
	}
	w.ValueRoots[root] = true
	ti := &treeInfo{Root: root, IsMap: p.IsMap()}
	w.Trees = append(w.Trees, ti)
	return v.walkSlab(w, ti, root, top, 1)
}

func (v *LedgerView) walkSlab(w *walkResult, ti *treeInfo, id RegID, top RegID, depth int) *regViol {
	p := v.Regs[id]
	if p == nil {
		return rv("reach.dangling", "slab %s is referenced but no such register exists", id)
	}
	if id.Owner != top.Owner {
		return rv("reach.owner", "slab %s belongs to the tree of %s but has a different owner", id, top)
	}
	w.Owner[id] = top
	ti.Slabs = append(ti.Slabs, id)
	if depth > ti.Height {
		ti.Height = depth
	}
	if p.IsMeta() {
		if p.ChildOwner != id.Owner {
			return rv("reach.owner", "index slab %s names child owner %#x", id, p.ChildOwner)
		}
		for _, ch := range p.Children {
			cid := RegID{p.ChildOwner, ch.Index}
			w.Reached[cid]++
			if rvx := v.walkSlab(w, ti, cid, top, depth+1); rvx != nil {
				return rvx
			}
		}
		return nil
	}
	if !p.IsData() {
		return rv("reach.kind", "slab %s of kind %s inside a container tree", id, p.Kind)
	}
	ti.Leaves = append(ti.Leaves, id)
	return v.walkContent(w, p, top)
}

// walkContent follows the references inside a data slab (elements, wrappers, inlined containers, groups).
func (v *LedgerView) walkContent(w *walkResult, p *PReg, top RegID) *regViol {
	var err *regViol
	visitRef := func(ref RegID) {
		if err != nil {
			return
		}
		w.Reached[ref]++
		t := v.Regs[ref]
		if t == nil {
			err = rv("reach.dangling", "register %s references %s, which does not exist", p.ID, ref)
			return
		}
		if ref.Owner != p.ID.Owner {
			err = rv("reach.owner", "register %s references %s, which has a different owner", p.ID, ref)
			return
		}
		if t.Kind == "storable" {
			w.LargeVals++
			w.Owner[ref] = top
			er, gr := t.Refs()
			if len(er)+len(gr) > 0 {
				err = rv("reach.kind", "large-value slab %s holds references", ref)
			}
			return
		}
		err = v.walkContainer(w, ref, top, true)
	}
	p.EachElem(func(e *PElem) {
		switch e.Kind {
		case "ref":
			visitRef(e.Ref)
		case "inl.arr", "inl.map":
			w.Inlined++
		case "inl.cmap":
			w.Inlined++
			w.Compact++
		}
	})
	if err != nil {
		return err
	}
	var countGroups func(pe *PElements)
	countGroups = func(pe *PElements) {
		if pe == nil {
			return
		}
		if pe.IsList {
			w.Lists++
		}
		if pe.Level > w.MaxGroupLevel {
			w.MaxGroupLevel = pe.Level
		}
		for i := range pe.Entries {
			if pe.Entries[i].Kind == "group" {
				w.Groups++
				countGroups(pe.Entries[i].Group)
			}
		}
	}
	countGroups(p.MapElems)
	_, groupRefs := p.Refs()
	for _, g := range groupRefs {
		w.Reached[g]++
		w.XGroups++
		t := v.Regs[g]
		if t == nil {
			return rv("reach.dangling", "register %s references external group %s, which does not exist", p.ID, g)
		}
		if t.Kind != "map.coll" {
			return rv("reach.kind", "external group reference %s -> %s points at a %s slab", p.ID, g, t.Kind)
		}
		if g.Owner != p.ID.Owner {
			return rv("reach.owner", "external group %s of %s has a different owner", g, p.ID)
		}
		w.Owner[g] = top
		if rvx := v.walkContent(w, t, top); rvx != nil {
			return rvx
		}
	}
	return nil
}

// CheckReachability: the register set equals the set reachable from the roots; every
// non-root register is referenced exactly once.
func (v *LedgerView) CheckReachability(roots []RegID) (*walkResult, *regViol) {
	w, rvx := v.Walk(roots)
	if rvx != nil {
		return nil, rvx
	}
	isRoot := map[RegID]bool{}
	for _, r := range roots {
		isRoot[r] = true
	}
	for _, id := range v.L.SortedIDs() {
		n := w.Reached[id]
		if n == 0 {
			return w, rv("reach.leak", "register %s (%s, %d bytes) is not reachable from any live root", id, v.Regs[id].Kind, len(v.L.Regs[id]))
		}
		if isRoot[id] && n != 1 {
			return w, rv("reach.double", "root register %s is also referenced from another slab", id)
		}
		if n > 1 {
			return w, rv("reach.double", "register %s is referenced %d times", id, n)
		}
	}
	ids := make([]RegID, 0, len(w.Reached))
	for id := range w.Reached {
		ids = append(ids, id)
	}
	sort.Slice(ids, func(i, j int) bool { return regLess(ids[i], ids[j]) })
	for _, id := range ids {
		if v.Regs[id] == nil {
			return w, rv("reach.dangling", "register %s is referenced but does not exist", id)
		}
	}
	return w, nil
}

// ---- C05: structure and size band ----

type limits struct {
	Slab       uint32
	MaxArrElem uint32
	MaxMapElem uint32
	MaxMapKey  uint32
}

func currentLimits(slab uint32) limits {
	return limits{Slab: slab, MaxArrElem: atree.MaxInlineArrayElementSize(), MaxMapElem: atree.MaxInlineMapElementSize(), MaxMapKey: atree.MaxInlineMapKeySize()}
}

func (v *LedgerView) CheckStructure(w *walkResult, lim limits) *regViol {
	maxSize := uint32(uint64(lim.Slab) * 3 / 2)
	minSize := lim.Slab / 2
	for _, ti := range w.Trees {
		root := v.Regs[ti.Root]
		if !root.FlagRoot {
			return rv("struct.root", "container root %s is not flagged as root", ti.Root)
		}
		if root.IsMeta() && len(root.Children) < 2 {
			return rv("struct.root-children", "root index slab %s has %d child(ren)", ti.Root, len(root.Children))
		}
		for _, id := range ti.Slabs {
			p := v.Regs[id]
			sz := v.Sizes[id]
			if id != ti.Root && p.FlagRoot {
				return rv("struct.root", "non-root slab %s of container %s is flagged as root", id, ti.Root)
			}
			if !p.FlagNoSizeLimit {
				if sz > maxSize {
					return rv("struct.oversize", "slab %s (%s) reports %d bytes, above 1.5 x %d", id, p.Kind, sz, lim.Slab)
				}
				if id != ti.Root && sz < minSize {
					return rv("struct.underflow", "non-root slab %s (%s) reports %d bytes, below half of %d", id, p.Kind, sz, lim.Slab)
				}
			}
			if p.IsMeta() {
				if len(p.Children) == 0 {
					return rv("struct.empty-index", "index slab %s has no children", id)
				}
				for i, ch := range p.Children {
					cid := RegID{p.ChildOwner, ch.Index}
					c := v.Regs[cid]
					if uint32(ch.Size) != v.Sizes[cid] {
						return rv("struct.header-size", "index slab %s records size %d for child %s, which reports %d", id, ch.Size, cid, v.Sizes[cid])
					}
					if p.Kind == "arr.meta" {
						if got := v.arrayCount(c); uint64(ch.Count) != got {
							return rv("struct.header-count", "index slab %s records count %d for child %s, which holds %d", id, ch.Count, cid, got)
						}
					} else {
						fk, ok := v.firstDigest(c)
						if ok && fk != ch.FirstKey {
							return rv("struct.header-firstkey", "index slab %s records first digest %#x for child %s, whose first digest is %#x", id, ch.FirstKey, cid, fk)
						}
						if i > 0 && p.Children[i-1].FirstKey >= ch.FirstKey {
							return rv("struct.header-order", "index slab %s: child first digests not strictly ascending at %d", id, i)
						}
					}
					if c.IsMeta() != v.Regs[RegID{p.ChildOwner, p.Children[0].Index}].IsMeta() {
						return rv("struct.mixed-level", "index slab %s mixes index and data children", id)
					}
				}
			}
		}
		// sibling links: exactly the left-to-right leaf sequence
		for i, id := range ti.Leaves {
			p := v.Regs[id]
			var want *RegID
			if i+1 < len(ti.Leaves) {
				want = &ti.Leaves[i+1]
			}
			switch {
			case want == nil && p.Next != nil:
				return rv("struct.next", "last leaf %s of %s has a sibling link to %s", id, ti.Root, *p.Next)
			case want != nil && (p.Next == nil || *p.Next != *want):
				return rv("struct.next", "leaf %s of %s links to %v, next leaf is %s", id, ti.Root, p.Next, *want)
			}
		}
		// per-element limits and digest order
		var lastDigest uint64
		haveLast := false
		for _, id := range ti.Leaves {
			p := v.Regs[id]
			if p.Kind == "arr.data" {
				for i := range p.Elems {
					if uint32(p.Elems[i].Size) > lim.MaxArrElem {
						return rv("struct.elem-size", "array slab %s element %d occupies %d bytes, limit %d", id, i, p.Elems[i].Size, lim.MaxArrElem)
					}
				}
				continue
			}
			me := p.MapElems
			if me.Level != 0 {
				return rv("struct.level", "map leaf %s has elements of level %d", id, me.Level)
			}
			for i, d := range me.Digests {
				if haveLast && d <= lastDigest {
					return rv("struct.digest-order", "map %s: digest %#x in leaf %s not greater than its predecessor %#x", ti.Root, d, id, lastDigest)
				}
				lastDigest, haveLast = d, true
				if uint32(me.Entries[i].Size) > lim.MaxMapElem {
					return rv("struct.elem-size", "map slab %s element %d occupies %d bytes, limit %d", id, i, me.Entries[i].Size, lim.MaxMapElem)
				}
			}
			if rvx := v.checkElements(id, me, lim); rvx != nil {
				return rvx
			}
		}
	}
	// external groups
	for _, id := range v.L.SortedIDs() {
		p := v.Regs[id]
		if p.Kind == "map.coll" {
			if p.MapElems.Level == 0 {
				return rv("struct.level", "external group %s has level 0", id)
			}
			if rvx := v.checkElements(id, p.MapElems, lim); rvx != nil {
				return rvx
			}
		}
	}
	return nil
}

// checkElements checks one elements structure recursively: digest order inside groups, key/value limits.
func (v *LedgerView) checkElements(id RegID, me *PElements, lim limits) *regViol {
	for i := 1; i < len(me.Digests); i++ {
		if me.Digests[i-1] >= me.Digests[i] {
			return rv("struct.digest-order", "slab %s level %d: digests not strictly ascending at %d", id, me.Level, i)
		}
	}
	for i := range me.Entries {
		ent := &me.Entries[i]
		switch ent.Kind {
		case "single":
			if uint32(ent.Key.Size) > lim.MaxMapKey {
				return rv("struct.key-size", "slab %s: key occupies %d bytes, limit %d", id, ent.Key.Size, lim.MaxMapKey)
			}
			if uint32(ent.Size) > lim.MaxMapElem {
				return rv("struct.elem-size", "slab %s: key+value occupy %d bytes, limit %d", id, ent.Size, lim.MaxMapElem)
			}
		case "group":
			if me.IsList {
				return rv("struct.group", "slab %s: collision group inside a last-level list", id)
			}
			if ent.Group.Level != me.Level+1 {
				return rv("struct.group-level", "slab %s: group of level %d inside elements of level %d", id, ent.Group.Level, me.Level)
			}
			if len(ent.Group.Entries) < 2 && !hasNestedGroup(ent.Group) {
				return rv("struct.group-single", "slab %s: collision group with %d element(s) was not collapsed", id, len(ent.Group.Entries))
			}
			if rvx := v.checkElements(id, ent.Group, lim); rvx != nil {
				return rvx
			}
		case "xgroup":
			if me.Level != 0 {
				return rv("struct.xgroup-level", "slab %s: external group referenced from level %d", id, me.Level)
			}
			g := v.Regs[ent.GroupRef]
			if g != nil && g.MapElems != nil && g.MapElems.Level != me.Level+1 {
				return rv("struct.group-level", "external group %s has level %d, referenced from level %d", ent.GroupRef, g.MapElems.Level, me.Level)
			}
		}
	}
	return nil
}

func hasNestedGroup(pe *PElements) bool {
	for i := range pe.Entries {
		if pe.Entries[i].Kind != "single" {
			return true
		}
	}
	return false
}

func (v *LedgerView) arrayCount(p *PReg) uint64 {
	if p == nil {
		return 0
	}
	if p.Kind == "arr.data" {
		return uint64(len(p.Elems))
	}
	var n uint64
	for _, ch := range p.Children {
		n += uint64(ch.Count)
	}
	return n
}

func (v *LedgerView) firstDigest(p *PReg) (uint64, bool) {
	if p == nil {
		return 0, false
	}
	if p.IsMeta() {
		if len(p.Children) == 0 {
			return 0, false
		}
		return p.Children[0].FirstKey, true
	}
	if p.MapElems == nil || len(p.MapElems.Digests) == 0 {
		return 0, false
	}
	return p.MapElems.Digests[0], true
}

// ---- C06: reported sizes vs bytes written ----

// CheckSizes compares the size reported by the library for every register with the bytes written.
// live, if non-nil, returns the in-memory slab currently held for id (write set or cache).
func (v *LedgerView) CheckSizes(live func(RegID) atree.Slab) *regViol {
	for _, id := range v.L.SortedIDs() {
		p := v.Regs[id]
		r := int(v.Sizes[id])
		wlen := len(p.Raw) - p.ExtraLen - p.IEDLen
		d := r - wlen
		switch {
		case d < 0:
			return rv("size.under", "slab %s (%s) reports %d bytes but %d were written (extra data %d, shared section %d excluded)", id, p.Kind, r, wlen, p.ExtraLen, p.IEDLen)
		case p.HasCompact():
			// keys and digests hoisted into the shared section: any non-negative saving
		case p.IsData() && !p.FlagRoot && !p.FlagNext:
			if d != 0 && d != 16 {
				return rv("size.diff", "slab %s (%s, no sibling link) reports %d bytes, wrote %d: difference %d is neither 0 nor the 16-byte link", id, p.Kind, r, wlen, d)
			}
		default:
			if d != 0 {
				return rv("size.diff", "slab %s (%s) reports %d bytes, wrote %d", id, p.Kind, r, wlen)
			}
		}
		if live != nil {
			if s := live(id); s != nil {
				if int(s.ByteSize()) != r {
					return rv("size.decode", "slab %s: in-memory slab reports %d bytes, the slab decoded from its register reports %d", id, s.ByteSize(), r)
				}
			}
		}
	}
	return nil
}

// ---- C10: inline rule ----

// inlineRule checks, for every nested container found by the parser, that it is stored
// inline exactly when it is a single slab that fits the parent's per-element limit.
func (v *LedgerView) CheckInlineRule(w *walkResult, lim limits) *regViol {
	for _, id := range v.L.SortedIDs() {
		p := v.Regs[id]
		if !p.IsData() {
			continue
		}
		var bad *regViol
		checkSlot := func(e *PElem, limit int, where string) {
			if bad != nil {
				return
			}
			// unwrap
			over := 0
			in := e
			for in.Kind == "some" {
				over += someOverhead
				in = in.Inner
			}
			switch in.Kind {
			case "inl.arr", "inl.map", "inl.cmap":
				if e.Size > limit {
					bad = rv("inline.toolarge", "%s: inlined child (%d bytes incl. wrappers) exceeds the slot limit %d", where, e.Size, limit)
				}
			case "ref":
				t := v.Regs[in.Ref]
				if t == nil || t.Kind == "storable" || !t.FlagRoot {
					return
				}
				if !t.IsData() {
					return // multi-slab child: must be standalone
				}
				if t.HasCompact() {
					return // reported inlined size is not derivable from bytes alone
				}
				would := 14 + t.ContentLen + over
				if would <= limit {
					bad = rv("inline.notinlined", "%s: child %s is a single slab whose inlined form would take %d bytes (limit %d) but is stored as a separate slab", where, in.Ref, would, limit)
				}
			}
		}
		var visitElems func(elems []PElem, where string)
		var visitMap func(me *PElements, where string)
		visitElems = func(elems []PElem, where string) {
			for i := range elems {
				checkSlot(&elems[i], int(lim.MaxArrElem), fmt.Sprintf("%s[%d]", where, i))
				descend(&elems[i], where, visitElems, visitMap)
			}
		}
		visitMap = func(me *PElements, where string) {
			if me == nil {
				return
			}
			for i := range me.Entries {
				ent := &me.Entries[i]
				switch ent.Kind {
				case "single":
					limit := int(lim.MaxMapElem) - ent.Key.Size - 1
					checkSlot(ent.Val, limit, fmt.Sprintf("%s{key %d}", where, i))
					descend(ent.Val, where, visitElems, visitMap)
				case "group":
					visitMap(ent.Group, where)
				}
			}
		}
		visitElems(p.Elems, id.String())
		visitMap(p.MapElems, id.String())
		if bad != nil {
			return bad
		}
	}
	return nil
}

func descend(e *PElem, where string, visitElems func([]PElem, string), visitMap func(*PElements, string)) {
	in := e
	for in.Kind == "some" {
		in = in.Inner
	}
	switch in.Kind {
	case "inl.arr":
		visitElems(in.Elems, where+">")
	case "inl.map":
		visitMap(in.MapElems, where+">")
	case "inl.cmap":
		// values of a compact map: their slot limit depends on the hoisted key; only descend
		for i := range in.Compact {
			descend(&in.Compact[i], where+">", visitElems, visitMap)
		}
	}
}

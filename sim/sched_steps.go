package sim

// Storage-schedule steps: commit, reopen, crash.

import (
	"errors"
	"fmt"
	"runtime"
	"sort"

	"github.com/onflow/atree"
)

func runtimeGC() { runtime.GC(); runtime.GC() }

func (w *World) commitOnce(flavour string, workers int) error {
	if workers <= 0 {
		workers = 1
	}
	if flavour == "nfc" {
		if workers > 1 && w.Ledger.plan != nil && !inBubble && TestingT != nil && atree.VerifYield == nil {
			// The order-relaxed commit stores slabs in the order in which its workers deliver them.  With a
			// positional write fault (or a crash at the k-th write) armed, which stores land before the fault
			// would depend on the real scheduling of the worker goroutines - the one thing a run must not
			// depend on.  Such an attempt runs under the seeded scheduler: the arrival order becomes a function
			// of the trace.
			return w.scheduledNFC(workers)
		}
		return w.Storage.NondeterministicFastCommit(workers)
	}
	return w.Storage.FastCommit(workers)
}

func (w *World) scheduledNFC(workers int) error {
	s := NewSched("random", NewRng(0x9e3779b97f4a7c15^uint64(w.Commits)<<20^uint64(w.Ledger.seq)))
	s.Install()
	var err error
	var pv any
	live := s.RunBubble(TestingT, []func(){func() {
		defer func() { pv = recover() }()
		err = w.Storage.NondeterministicFastCommit(workers)
	}})
	s.Uninstall()
	w.Stats.Add("sched.worker-decisions", s.Decisions)
	w.Stats.Inc("sched.faulted-nfc-under-scheduler")
	if pv != nil {
		panic(pv) // the simulated crash (or a library panic) continues on the caller's goroutine
	}
	if live != nil && err == nil {
		err = fmt.Errorf("order-relaxed commit under the scheduler: %v", live)
	}
	return err
}

// execCommit performs a commit (with optional fault plan and retries) and
// evaluates the commit-time ledger monitors.
func (w *World) execCommit(st *Step) *Violation {
	w.Commits++
	attempts := 0
	for {
		attempts++
		w.Ledger.BeginPhase(fmt.Sprintf("commit#%d.%d", w.Commits, attempts), true)
		var plan *FaultPlan
		if st.Fault != nil {
			n := st.Fault.Attempts
			if n <= 0 {
				n = 1
			}
			if attempts <= n {
				plan = &FaultPlan{FailWriteAt: map[int]bool{}, FailWriteID: map[RegID]bool{}}
				for _, k := range st.Fault.WriteAt {
					plan.FailWriteAt[k] = true
				}
				if len(st.Fault.WriteIdx) > 0 {
					stored, removed := w.PendingIDs()
					var owned []RegID
					for _, id := range append(stored, removed...) {
						if id.Owner != 0 {
							owned = append(owned, id)
						}
					}
					sort.Slice(owned, func(i, j int) bool { return regLess(owned[i], owned[j]) })
					for _, k := range st.Fault.WriteIdx {
						if len(owned) > 0 {
							plan.FailWriteID[owned[k%len(owned)]] = true
						}
					}
				}
			}
		}
		if st.Sub == "crashmid" && plan != nil {
			plan.PanicWrite = true
			w.commitJournal = make(map[RegID][]byte, len(w.Ledger.Regs))
			for k, v := range w.Ledger.Regs {
				w.commitJournal[k] = v
			}
		}
		w.Ledger.SetPlan(plan)
		logStart := len(w.Ledger.Log)
		firedBefore := w.Ledger.FaultsFired["ledger.write-error"]
		if w.BeforeCommitAttempt != nil {
			w.BeforeCommitAttempt(w, st, attempts)
		}
		err := w.commitOnce(st.Flavour, st.Workers)
		w.commitJournal = nil
		w.Ledger.SetPlan(nil)
		w.Ledger.BeginPhase("op", false)
		fired := w.Ledger.FaultsFired["ledger.write-error"] - firedBefore
		w.Stats.Add("fault.ledger.write-error", fired)

		if st.Flavour != "nfc" {
			if v := w.checkAscending(w.Ledger.Log[logStart:]); v != nil {
				return v
			}
		}
		if err == nil {
			if fired > 0 {
				return w.viol("commit.fault-swallowed", "commit attempt %d returned nil although %d ledger write(s) failed", attempts, fired)
			}
			break
		}
		if fired == 0 {
			v := w.viol("commit.error", "commit (%s, %d workers) failed without any injected fault: (%s) %v", st.Flavour, st.Workers, errCategory(err), err)
			v.Sig = w.commitErrorSig(err)
			return v
		}
		w.Stats.Inc("commit.failed-attempt")
		var ee *atree.ExternalError
		if !errors.As(err, &ee) || !errors.Is(err, ErrLedgerFault) {
			return w.viol("commit.fault-category", "commit failed by an injected ledger fault returned %T (%s) not wrapping the injected error: %v", err, errCategory(err), err)
		}
		if w.AfterFailedCommit != nil {
			if v := w.AfterFailedCommit(w, st, attempts); v != nil {
				return v
			}
		}
		if st.GiveUp {
			// the caller does not retry now: whatever was not written stays pending, the history goes on, and a
			// later commit has to bring the ledger to the state a fault-free history would have reached
			w.Stats.Inc("commit.given-up")
			w.result("commit given up")
			return nil
		}
		if attempts > st.Retries+8 {
			return w.viol("harness", "commit still failing after %d attempts", attempts)
		}
		w.Stats.Inc("commit.retry")
	}
	w.Stats.Inc("commit." + flavourName(st.Flavour))
	// ledger monitor violations (O-LEDGER) are evaluated by the properties that own them (C03) after every step
	w.takeSnapshot()
	w.result("commit")
	return nil
}

func flavourName(f string) string {
	if f == "nfc" {
		return "nfc"
	}
	return "fc"
}

// checkAscending: the deterministic commit issues writes and deletions in ascending (owner,index) order.
func (w *World) checkAscending(evs []IOEvent) *Violation {
	var last RegID
	have := false
	for _, e := range evs {
		if e.Kind != IOSet && e.Kind != IODelete {
			continue
		}
		if have && !regLess(last, e.ID) {
			return w.viol("commit.order", "deterministic commit wrote %s after %s (not strictly ascending)", e.ID, last)
		}
		last, have = e.ID, true
	}
	return nil
}

// reopen replaces the storage by a fresh one over the same ledger; all handles die.
func (w *World) reopen() {
	w.Storage = w.newStorage(w.Ledger, w.Ctl)
	w.Handles = map[int]any{}
	// temp-owner containers lived in the old storage's write set only
	for _, r := range w.Model.Roots() {
		if r.Volatile {
			w.Model.unregister(r)
		}
	}
}

// execCrash abandons all uncommitted state.
func (w *World) execCrash(st *Step) *Violation {
	switch st.Sub {
	case "drop":
		w.Storage.DropDeltas()
		w.Storage.DropCache()
		w.Handles = map[int]any{}
		w.Stats.Inc("crash.drop")
	default:
		w.Storage = w.newStorage(w.Ledger, w.Ctl)
		w.Handles = map[int]any{}
		w.Stats.Inc("crash.abandon")
	}
	if w.Cfg.AllocRevert {
		w.Ledger.Alloc = map[uint64]uint64{}
		for k, v := range w.SnapAlloc {
			w.Ledger.Alloc[k] = v
		}
	}
	w.Model = w.Snapshot.Clone()
	w.result("crash")
	return nil
}

// ---- virtual ledger ----

// VirtualLedger returns a copy of the durable registers overlaid with the
// encoding of every pending slab and minus every pending deletion: exactly
// what a commit would leave on the ledger.  Read-only with respect to the storage.
func (w *World) VirtualLedger() (*SimLedger, error) { return w.virtualLedger(false) }

// ViewLedger is VirtualLedger plus the pending temporary-owner slabs (never durable,
// but structurally checkable like any other slab).
func (w *World) ViewLedger() (*SimLedger, error) { return w.virtualLedger(true) }

func (w *World) virtualLedger(includeTemp bool) (*SimLedger, error) {
	l := w.Ledger.Clone()
	stored, removed, _, _ := atree.VerifLayerIDs(w.Storage)
	sort.Slice(stored, func(i, j int) bool { return stored[i].Compare(stored[j]) < 0 })
	for _, id := range removed {
		delete(l.Regs, RegIDOf(id))
	}
	for _, id := range stored {
		if id.HasTempAddress() && !includeTemp {
			continue
		}
		slab := w.Storage.RetrieveIfLoaded(id)
		if slab == nil {
			return nil, fmt.Errorf("pending slab %s is not retrievable", id)
		}
		data, err := atree.EncodeSlab(slab, encMode)
		if err != nil {
			return nil, &encodeError{id, err}
		}
		l.Regs[RegIDOf(id)] = data
	}
	return l, nil
}

type encodeError struct {
	id  atree.SlabID
	err error
}

func (e *encodeError) Error() string { return fmt.Sprintf("encoding pending slab %s failed: %v", e.id, e.err) }

// PendingIDs returns the sorted ids in the write set (stores and removals).
func (w *World) PendingIDs() (stored, removed []RegID) {
	s, r, _, _ := atree.VerifLayerIDs(w.Storage)
	for _, id := range s {
		stored = append(stored, RegIDOf(id))
	}
	for _, id := range r {
		removed = append(removed, RegIDOf(id))
	}
	sort.Slice(stored, func(i, j int) bool { return regLess(stored[i], stored[j]) })
	sort.Slice(removed, func(i, j int) bool { return regLess(removed[i], removed[j]) })
	return
}

// inBubble is set while a run executes inside a testing/synctest bubble (goroutine accounting differs there).
var inBubble bool

// commitErrorSig classifies a commit failure by error type and a model-level predicate (never by message text).
func (w *World) commitErrorSig(err error) string {
	var ee *atree.EncodingError
	if errors.As(err, &ee) {
		for _, cid := range w.Model.SortedCIDs() {
			c := w.Model.Conts[cid]
			n := 0
			w.Model.eachChild(c, func(ch *MCont) {
				if ch.IsMap {
					n++
				}
			})
			if n > 255 {
				return "encoding-error/gt255-child-maps-in-one-container"
			}
		}
		return "encoding-error"
	}
	return ""
}

package sim

import (
	"os"
	"sort"
)

func sortStrings(s []string) { sort.Strings(s) }

func writeFileAtomic(path string, b []byte) error {
	tmp := path + ".tmp"
	if err := os.WriteFile(tmp, b, 0o644); err != nil {
		return err
	}
	return os.Rename(tmp, path)
}

package sim

// C14: a failed commit loses nothing and a retry converges to the fault-free result.

import (
	"bytes"
	"encoding/json"
	"fmt"
	"sort"

	"github.com/onflow/atree"
)

func init() {
	// deterministic job order in the order-relaxed commit, so that failing positions replay
	atree.VerifOrderSlabIDs = func(ids []atree.SlabID) {
		if !orderHookOff {
			sort.Slice(ids, func(i, j int) bool { return ids[i].Compare(ids[j]) < 0 })
		}
	}
}

var orderHookOff bool

// FaultVariant: which write fails at each commit of the trace.
type FaultVariant struct {
	E        int  `json:"e"`                  // commit j fails position (E mod n_j)+1
	Pair     int  `json:"pair,omitempty"`     // additionally position ((E+Pair) mod n_j)+1
	GiveUp   bool `json:"give_up,omitempty"`  // every other commit fails once and is NOT retried: the history goes on and the next (fault-free) commit must converge
	Attempts int  `json:"attempts,omitempty"` // persistent for the first n attempts
	Workers  int  `json:"workers,omitempty"`
	Flavour  string `json:"flavour,omitempty"` // force a flavour ("" = as recorded)
	ByID     bool `json:"by_id,omitempty"`    // identity-based fault instead of positional
	Sched    string `json:"sched,omitempty"`  // run every commit under the controlled scheduler with this policy (positions of the order-relaxed commit then replay exactly)
	SchedSeed uint64 `json:"sched_seed,omitempty"`
}

func (v FaultVariant) String() string { b, _ := json.Marshal(v); return string(b) }

type pendingSnap struct {
	stores  map[RegID][]byte // id -> bytes a commit would write
	removes map[RegID]bool
}

func (w *World) snapPending() (*pendingSnap, error) {
	ps := &pendingSnap{stores: map[RegID][]byte{}, removes: map[RegID]bool{}}
	stored, removed, _, _ := atree.VerifLayerIDs(w.Storage)
	for _, id := range removed {
		if !id.HasTempAddress() {
			ps.removes[RegIDOf(id)] = true
		}
	}
	for _, id := range stored {
		if id.HasTempAddress() {
			continue
		}
		slab := w.Storage.RetrieveIfLoaded(id)
		if slab == nil {
			return nil, fmt.Errorf("pending slab %s not retrievable", id)
		}
		data, err := atree.EncodeSlab(slab, encMode)
		if err != nil {
			return nil, err
		}
		ps.stores[RegIDOf(id)] = data
	}
	return ps, nil
}

// checkPendingOrDurable: after a failed attempt every change of the pre-commit write set is
// either durably applied and gone from the write set, or still pending - never neither.
func (w *World) checkPendingOrDurable(pre *pendingSnap) *Violation {
	stored, removed := w.PendingIDs()
	pendS := map[RegID]bool{}
	pendR := map[RegID]bool{}
	for _, id := range stored {
		pendS[id] = true
	}
	for _, id := range removed {
		pendR[id] = true
	}
	ids := make([]RegID, 0, len(pre.stores)+len(pre.removes))
	for id := range pre.stores {
		ids = append(ids, id)
	}
	for id := range pre.removes {
		ids = append(ids, id)
	}
	sort.Slice(ids, func(i, j int) bool { return regLess(ids[i], ids[j]) })
	for _, id := range ids {
		if want, ok := pre.stores[id]; ok {
			durable := bytes.Equal(w.Ledger.Regs[id], want)
			switch {
			case pendS[id]:
				// still pending: fine (it may or may not also be durable already)
			case durable:
				w.Stats.Inc("c14.durable-after-failure")
			default:
				return w.viol("c14.lost-store", "after the failed commit attempt, slab %s is neither pending in the write set nor durably written with its new bytes", id)
			}
			continue
		}
		_, onLedger := w.Ledger.Regs[id]
		switch {
		case pendR[id]:
		case !onLedger:
			w.Stats.Inc("c14.durable-after-failure")
		default:
			return w.viol("c14.lost-delete", "after the failed commit attempt, the deletion of slab %s is neither pending in the write set nor durably applied", id)
		}
	}
	return nil
}

// execWithFaults executes the trace injecting variant's fault at every commit and checks C14's oracles.
// twin are the fault-free commit points of the same trace.
func execWithFaults(tr *Trace, variant FaultVariant, twin []commitPoint, stats *Stats) *Violation {
	w := NewWorld(tr.Config, stats)
	var pre *pendingSnap
	w.BeforeCommitAttempt = func(w *World, st *Step, attempt int) {
		if attempt == 1 {
			pre, _ = w.snapPending()
		}
	}
	w.AfterFailedCommit = func(w *World, st *Step, attempt int) *Violation {
		if pre != nil {
			if v := w.checkPendingOrDurable(pre); v != nil {
				return v
			}
		}
		// reads through the storage still return the latest values
		if v := w.DeepLive(cmpOpts{}); v != nil {
			return w.viol("c14.reads-after-failure", "after the failed commit attempt, reading through the storage no longer matches the model: [%s] %s", v.Class, v.Msg)
		}
		stats.Inc("c14.failed-attempt-checked")
		return nil
	}
	ci := 0
	gaveUp := false
	for i := range tr.Steps {
		st := tr.Steps[i]
		w.StepNo = i
		isCommit := st.Op == "commit" || st.Op == "reopen"
		if !isCommit {
			gaveUp = false
		}
		if isCommit {
			if variant.Workers > 0 {
				st.Workers = variant.Workers
			}
			if variant.Flavour != "" {
				st.Flavour = variant.Flavour
			}
			n := 0
			if ci < len(twin) {
				n = len(twin[ci].Writes)
			}
			gaveUp = false
			if variant.GiveUp {
				if st.Op == "commit" && ci%2 == 0 && ci+1 < len(twin) && n > 0 {
					gaveUp = true
				} else {
					n = 0 // this commit runs fault-free and has to converge
				}
			}
			if n > 0 {
				f := &FaultSpec{Attempts: variant.Attempts}
				byID := variant.ByID || (st.Flavour == "nfc" && st.Workers > 1 && (variant.Sched == "" || scheduledCommit == nil))
				if byID {
					f.WriteIdx = []int{variant.E}
					if variant.Pair > 0 {
						f.WriteIdx = append(f.WriteIdx, variant.E+variant.Pair)
					}
					stats.Inc("c14.fault-by-identity")
				} else {
					f.WriteAt = []int{variant.E%n + 1}
					if variant.Pair > 0 {
						f.WriteAt = append(f.WriteAt, (variant.E+variant.Pair)%n+1)
					}
					stats.Inc("c14.fault-by-position")
				}
				st.Fault = f
				st.Retries = 4
				st.GiveUp = gaveUp
			}
		}
		var v *Violation
		if isCommit && variant.Sched != "" && scheduledCommit != nil {
			stats.Inc("c14.scheduled-commit")
			v = scheduledCommit(w, &st, ExecVariant{Sched: variant.Sched, Seed: variant.SchedSeed}, NewRng(variant.SchedSeed).Sub("c14"))
		} else {
			v = w.execGuarded(&st)
		}
		if v != nil {
			return v
		}
		if isCommit && gaveUp {
			stats.Inc("c14.given-up")
			ci++
			continue
		}
		if isCommit {
			if ci < len(twin) {
				if got := ledgerDigest(w.Ledger); got != twin[ci].State {
					return w.viol("c14.converge", "after retrying the commit at step %d until it succeeded, the registers differ from the fault-free execution (%s vs %s)", i, got, twin[ci].State)
				}
				if n := w.Storage.DeltasWithoutTempAddresses(); n != 0 {
					return w.viol("c14.pending-after-success", "after the successful retry %d owned slab(s) are still pending", n)
				}
				stats.Inc("c14.converged")
			}
			ci++
		}
	}
	return nil
}

func init() {
	ps := &PropSpec{
		ID: "C14", Level: "fault_enumeration",
		Verdict: []string{"c14.", "commit.fault-swallowed", "commit.fault-category", "live.", "panic"},
		Assumptions: []string{"positional faults of the order-relaxed commit with several workers replay exactly only in the variants that run under the controlled scheduler; the other variants use identity-based faults there"},
		Rule: "for each sampled history (both commit flavours, reopen, multi-owner, nested) a fault-free dry run gives the number n_j of writes/deletes of every commit j; the history is then re-executed once per failing position e (commit j fails its ((e mod n_j)+1)-th write; every single position of every commit is enumerated in thorough, an evenly spread sample incl. first and last in quick), plus pairs of positions, faults persisting for 2 attempts, identity-based faults, worker counts {1,2,8} and both flavours; each failed attempt must return an external error wrapping the injected one, every change of the pre-commit write set must be pending or durable, reads must still match the model, and after retrying to success the registers must be byte-identical to the fault-free twin at that commit point and nothing owned may stay pending; in 'give-up' variants a failed commit is not retried at once: the history goes on with the leftovers pending and the next, fault-free commit must converge to the twin's registers. Non-trivial = >= 1 failed attempt in a commit of >= 3 writes; distinct by trace hash",
		ExpectedReach: []string{"c14.failed-attempt-checked", "c14.converged", "c14.fault-by-identity", "c14.fault-by-position", "c14.durable-after-failure", "commit.nfc", "commit.fc", "c14.given-up"},
	}
	type aux struct {
		Variant FaultVariant `json:"variant"`
	}
	judge := func(tr *Trace, variant FaultVariant, agg *Stats) (*Violation, []commitPoint) {
		twin, _, v := execForDigest(tr, ExecVariant{Workers: variant.Workers}, NewStats())
		if v != nil {
			return &Violation{Class: "base." + v.Class, Step: v.Step, Msg: v.Msg}, twin
		}
		if variant.Flavour != "" {
			// the fault-free twin must use the same flavour at every commit
			tr2 := *tr
			tr2.Steps = append([]Step(nil), tr.Steps...)
			for i := range tr2.Steps {
				if tr2.Steps[i].Op == "commit" || tr2.Steps[i].Op == "reopen" {
					tr2.Steps[i].Flavour = variant.Flavour
				}
			}
			twin, _, v = execForDigest(&tr2, ExecVariant{Workers: variant.Workers}, NewStats())
			if v != nil {
				return &Violation{Class: "base." + v.Class, Step: v.Step, Msg: v.Msg}, twin
			}
		}
		return execWithFaults(tr, variant, twin, agg), twin
	}
	ps.Run = func(ps *PropSpec, seed uint64, tier string, agg *Stats) *RunResult {
		r := NewRng(seed)
		cfg := baseConfig(r.Sub("config"), "commitfault", tier)
		cfg.MaxSteps = r.Sub("len").Range(15, 110)
		tr := &Trace{Property: ps.ID, Seed: seed, Config: cfg}
		w := NewWorld(cfg, NewStats())
		p := determinismProfile(r.Sub("profile"), cfg)
		if r.Sub("osc").Chance(0.35) {
			// oscillating children: nested containers grow past the parent's inline limit and shrink back again and
			// again with commits in between, so that slab ids are written, deleted (tombstones in the read cache),
			// written again ... across failed and successful commits
			owners := p.Owners
			p = nestedProfile(r.Sub("osc-profile"), cfg)
			p.Name = "oscillate"
			p.Owners = owners
			p.NestedTargetBias = 0.9
			p.MaxDepth = 2
			p.NestProb = 0.3
			p.W["a.fill"], p.W["a.drain"], p.W["m.fill"], p.W["m.drain"] = 10, 10, 8, 8
			p.W["commit"], p.W["reopen"], p.W["dropcache"] = 14, 1, 1
			p.W["gc"] = 0
		}
		p.W["crash"] = 0
		if r.Sub("temp").Chance(0.3) {
			p.Owners = append(p.Owners, 0)
		}
		gen := NewGen(r.Sub("workload"), w, p)
		res := &RunResult{Seed: seed, Trace: tr}
		for i := 0; i < cfg.MaxSteps; i++ {
			st := gen.Next()
			tr.Steps = append(tr.Steps, st)
			w.StepNo = i
			if v := w.execGuarded(&st); v != nil {
				res.Cut = v
				break
			}
		}
		tr.Steps = append(tr.Steps, Step{Op: "commit", Flavour: []string{"fc", "nfc"}[r.Sub("last").Intn(2)], Workers: 2})
		res.Steps = len(tr.Steps)
		res.Hash = traceHash(tr)
		if res.Cut != nil {
			return res
		}
		twin, _, v := execForDigest(tr, ExecVariant{}, NewStats())
		if v != nil {
			res.Cut = v
			return res
		}
		maxN := 0
		for _, cp := range twin {
			if len(cp.Writes) > maxN {
				maxN = len(cp.Writes)
			}
		}
		if maxN == 0 {
			return res
		}
		// positions to enumerate
		var es []int
		if tier == "thorough" || maxN <= 10 {
			for e := 0; e < maxN; e++ {
				es = append(es, e)
			}
			agg.Inc("c14.histories-fully-enumerated")
		} else {
			for k := 0; k < 10; k++ {
				es = append(es, k*(maxN-1)/9)
			}
		}
		vr := r.Sub("variants")
		var variants []FaultVariant
		for _, e := range es {
			variants = append(variants, FaultVariant{E: e, Workers: []int{1, 2, 8}[vr.Intn(3)]})
		}
		// thorough: every pair of failing positions when the largest commit of the history is small
		if tier == "thorough" && maxN >= 2 && maxN <= 9 {
			for e := 0; e < maxN; e++ {
				for d := 1; e+d < maxN; d++ {
					variants = append(variants, FaultVariant{E: e, Pair: d, Workers: []int{1, 2, 8}[vr.Intn(3)]})
				}
			}
			agg.Inc("c14.histories-with-all-pairs")
		}
		// one give-up variant per history (a failed commit that is not retried at once), deterministic flavour
		variants = append(variants, FaultVariant{E: vr.Intn(maxN), Workers: []int{1, 2}[vr.Intn(2)], GiveUp: true, Flavour: []string{"fc", "fc", "nfc"}[vr.Intn(3)]})
		// pairs, persistent faults, identity-based faults, forced flavours
		extra := 4
		if tier == "thorough" {
			extra = 12
		}
		for k := 0; k < extra; k++ {
			fv := FaultVariant{E: vr.Intn(maxN), Workers: []int{1, 2, 8}[vr.Intn(3)]}
			switch vr.Intn(6) {
			case 5:
				fv.GiveUp = true
			case 4:
				fv.Sched = []string{"random", "last", "starve", "rr"}[vr.Intn(4)]
				fv.SchedSeed = vr.U64()
				fv.Workers = []int{2, 3, 8}[vr.Intn(3)]
				fv.Flavour = "nfc"
			case 0:
				fv.Pair = 1 + vr.Intn(maxN)
			case 1:
				fv.Attempts = 2
			case 2:
				fv.ByID = true
			case 3:
				fv.Flavour = []string{"fc", "nfc"}[vr.Intn(2)]
			}
			variants = append(variants, fv)
		}
		before := agg.C["c14.failed-attempt-checked"]
		for _, fv := range variants {
			v, _ := judge(tr, fv, agg)
			res.Events += len(tr.Steps)
			agg.Inc("c14.positions-executed")
			if v != nil {
				if ps.isVerdict(v.Class) {
					a, _ := json.Marshal(aux{fv})
					tr.Aux = a
					res.Violation = v
				} else {
					res.Cut = v
				}
				return res
			}
		}
		res.NonTrivial = maxN >= 3 && agg.C["c14.failed-attempt-checked"] > before
		agg.Add("events.steps", len(tr.Steps)*(len(variants)+1))
		return res
	}
	ps.Replay = func(ps *PropSpec, tr *Trace, agg *Stats) *RunResult {
		var a aux
		_ = json.Unmarshal(tr.Aux, &a)
		res := &RunResult{Seed: tr.Seed, Trace: tr, Steps: len(tr.Steps), Hash: traceHash(tr)}
		v, _ := judge(tr, a.Variant, agg)
		if v != nil {
			if ps.isVerdict(v.Class) {
				res.Violation = v
			} else {
				res.Cut = v
			}
		}
		return res
	}
	Props[ps.ID] = ps
}

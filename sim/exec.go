package sim

// The interpreter: executes one step against the real library and the model,
// evaluating O-RES on the spot.

import (
	"fmt"

	"github.com/onflow/atree"
)

func resClass(c *MCont) string {
	switch {
	case c.Parent != nil:
		return "res.nested"
	case c.IsMap:
		return "res.map"
	}
	return "res.array"
}

func (w *World) result(format string, args ...any) {
	w.Results = append(w.Results, fmt.Sprintf("%d:", w.StepNo)+fmt.Sprintf(format, args...))
}

// Exec runs one step.  It returns a violation if an oracle evaluated inside the
// step fails; harness-level impossibilities are reported with class "harness".
func (w *World) Exec(st *Step) (viol *Violation) {
	defer func() {
		if r := recover(); r != nil {
			if ip, ok := r.(injectedPanic); ok {
				// crash injected inside an operation: handled by the caller
				panic(ip)
			}
			viol = w.viol("panic", "library panicked in step %s: %v", st, r)
		}
	}()
	w.Stats.Inc("op." + st.Op)
	w.Events++
	switch st.Op {
	case "new":
		return w.execNew(st)
	case "a.append", "a.insert", "a.set", "a.remove", "a.get", "a.oob":
		return w.execArray(st)
	case "m.set", "m.get", "m.has", "m.remove":
		return w.execMap(st)
	case "m.setfail":
		return w.execSetFail(st)
	case "failstor":
		return w.execFailStorable(st)
	case "probe.removed":
		return w.execProbeRemoved(st)
	case "settype":
		return w.execSetType(st)
	case "count":
		return w.execCount(st)
	case "popall":
		return w.execPopAll(st)
	case "reget":
		if c := w.Model.Conts[st.C]; c != nil {
			w.dropHandles(c)
			w.viaIter[c.CID] = st.Sub == "iter"
		}
		return nil
	case "dispose":
		return w.execDispose(st)
	case "commit":
		return w.execCommit(st)
	case "dropcache":
		w.Storage.DropCache()
		// Eviction re-materialises slabs from registers on the next read.  Every handle obtained before it
		// belongs to the old lineage: nested handles alias evicted slab objects, and even a root handle may
		// carry a parent callback into an evicted parent (a detached child).  No handle survives an eviction;
		// roots are re-opened by id, children re-obtained through their parent (DESIGN 3.3).
		w.Handles = map[int]any{}
		w.Stats.Inc("sched.drop-cache")
		return nil
	case "reopen":
		if v := w.execCommit(st); v != nil {
			return v
		}
		w.reopen()
		w.Stats.Inc("sched.reopen")
		return nil
	case "crash":
		return w.execCrash(st)
	case "gc":
		runtimeGC()
		w.Stats.Inc("pool.flush")
		return nil
	}
	if f, ok := extraOps[st.Op]; ok {
		return f(w, st)
	}
	return w.viol("harness", "unknown op %q", st.Op)
}

// extraOps lets other files register more step kinds (iterators, bulk, faults ...).
var extraOps = map[string]func(*World, *Step) *Violation{}

func (w *World) execNew(st *Step) *Violation {
	if _, dup := w.Model.Conts[st.CID]; dup || st.T == nil {
		return nil
	}
	addr := OwnerAddress(st.Owner)
	if st.Sub == "map" {
		dig := DigesterSpec{Kind: "default"}
		if st.Dig != nil {
			dig = *st.Dig
		}
		c := &MCont{CID: st.CID, IsMap: true, Type: *st.T, Owner: st.Owner, Dig: dig, Volatile: st.Owner == 0}
		m, err := atree.NewMap(w.Storage, addr, w.digBuilder(c), *st.T)
		if err != nil {
			return w.viol("res.map", "NewMap failed: %v", err)
		}
		c.VID = RegIDOf(m.SlabID())
		c.Seed = m.Seed()
		w.Model.register(c)
		w.Handles[c.CID] = m
		w.result("new map")
		return nil
	}
	a, err := atree.NewArray(w.Storage, addr, *st.T)
	if err != nil {
		return w.viol("res.array", "NewArray failed: %v", err)
	}
	c := &MCont{CID: st.CID, Type: *st.T, Owner: st.Owner, VID: RegIDOf(a.SlabID()), Dig: DigesterSpec{Kind: "default"}, Volatile: st.Owner == 0}
	w.Model.register(c)
	w.Handles[c.CID] = a
	w.result("new arr")
	return nil
}

func (w *World) target(st *Step, wantMap bool) (*MCont, any, *Violation) {
	c := w.Model.Conts[st.C]
	if c == nil || c.IsMap != wantMap {
		return nil, nil, nil
	}
	h, v := w.handle(c)
	if v != nil {
		return nil, nil, v
	}
	return c, h, nil
}

func (w *World) execArray(st *Step) *Violation {
	c, h, v := w.target(st, false)
	if c == nil || v != nil {
		return v
	}
	a := h.(*atree.Array)
	class := resClass(c)
	n := uint64(len(c.Elems))

	if st.Op == "a.oob" {
		idx := n + st.OOB
		if st.End >= n && st.End != 0 {
			idx = st.End // absolute (huge) index: 2^31, 2^32, 2^63, 2^64-1 ...
		}
		var err error
		// the value of a rejected set/insert may be one whose Storable() has side effects (a string too
		// large to inline is moved to its own slab): a request rejected for its index must not get that far
		var val atree.Value = U64(1)
		if mv, ok := scalarOf(st.V); ok {
			val, _ = scalarValueOf(mv)
		}
		// ... or a detached-and-kept container offered for re-attachment at an impossible position: its
		// Storable() would inline it (remove its root slab from storage) - a rejected request must not get that far
		var offered *MCont
		if st.V != nil && st.V.Ref != nil && (st.Sub == "set" || st.Sub == "insert") {
			if dc := w.Model.Conts[*st.V.Ref]; dc != nil && dc.Parent == nil && dc.Owner == c.Owner && dc != c.Root() && (!dc.IsMap || dc.Dig.Kind == "default") {
				if dh, v := w.handle(dc); v == nil {
					val = dh.(atree.Value)
					offered = dc
					w.Stats.Inc("reject.index-with-container-value")
				}
			}
		}
		defer func() {
			if offered == nil {
				return
			}
			if dh, _ := w.handle(offered); dh != nil {
				if in, ok := dh.(interface{ Inlined() bool }); ok && in.Inlined() {
					// reported through the regular oracles as well (the container lost its register); flag the cause here
					w.Stats.Inc("reject.offered-container-inlined")
				}
			}
		}()
		switch st.Sub {
		case "get":
			_, err = a.Get(idx)
		case "set":
			_, err = a.Set(idx, val)
		case "insert":
			if idx != ^uint64(0) {
				idx++
			}
			err = a.Insert(idx, val)
		case "remove":
			_, err = a.Remove(idx)
		default:
			return nil
		}
		w.Stats.Inc("reject.index")
		if msg := checkErr(err, wantIndexOOB); msg != "" {
			return w.viol("reject.category", "array #%d %s at out-of-range index %d (count %d): %s", c.CID, st.Sub, idx, n, msg)
		}
		w.result("oob %s", st.Sub)
		return nil
	}

	switch st.Op {
	case "a.append", "a.insert":
		idx := n
		if st.Op == "a.insert" {
			idx = st.Pos % (n + 1)
		}
		val, mv, err := w.materialize(st.V, c.Owner, c)
		if err != nil {
			if err == errSkip {
				return nil
			}
			if vv, ok := err.(*Violation); ok {
				return vv
			}
			return w.viol(class, "building the value failed: %v", err)
		}
		if st.Op == "a.append" {
			err = a.Append(val)
		} else {
			err = a.Insert(idx, val)
		}
		if err != nil {
			return w.viol(class, "array #%d: in-range %s at %d (count %d) failed: %v", c.CID, st.Op, idx, n, err)
		}
		c.Elems = append(c.Elems, nil)
		copy(c.Elems[idx+1:], c.Elems[idx:])
		c.Elems[idx] = mv
		w.attach(c, mv)
		w.result("ins %d", idx)

	case "a.set":
		if n == 0 {
			return nil
		}
		idx := st.Pos % n
		val, mv, err := w.materialize(st.V, c.Owner, c)
		if err != nil {
			if err == errSkip {
				return nil
			}
			if vv, ok := err.(*Violation); ok {
				return vv
			}
			return w.viol(class, "building the value failed: %v", err)
		}
		old := c.Elems[idx]
		if ch := childOf(mv); ch != nil && childOf(old) == ch {
			return nil // setting a child over itself: not generated
		}
		existing, err := a.Set(idx, val)
		if err != nil {
			return w.viol(class, "array #%d: in-range Set(%d) (count %d) failed: %v", c.CID, idx, n, err)
		}
		c.Elems[idx] = mv
		w.attach(c, mv)
		if vv := w.checkReturned(class, fmt.Sprintf("array #%d Set(%d) previous element", c.CID, idx), existing, old); vv != nil {
			return vv
		}
		w.result("set %d old=%s", idx, describe(old))
		if vv := w.detached(old, existing, st.Keep); vv != nil {
			return vv
		}

	case "a.remove":
		if n == 0 {
			return nil
		}
		idx := st.Pos % n
		old := c.Elems[idx]
		existing, err := a.Remove(idx)
		if err != nil {
			return w.viol(class, "array #%d: in-range Remove(%d) (count %d) failed: %v", c.CID, idx, n, err)
		}
		c.Elems = append(c.Elems[:idx], c.Elems[idx+1:]...)
		if vv := w.checkReturned(class, fmt.Sprintf("array #%d Remove(%d) removed element", c.CID, idx), existing, old); vv != nil {
			return vv
		}
		w.result("rem %d old=%s", idx, describe(old))
		if vv := w.detached(old, existing, st.Keep); vv != nil {
			return vv
		}

	case "a.get":
		if n == 0 {
			return nil
		}
		idx := st.Pos % n
		val, err := a.Get(idx)
		if err != nil {
			return w.viol(class, "array #%d: in-range Get(%d) (count %d) failed: %v", c.CID, idx, n, err)
		}
		if mmx := w.cmpValue(w.Storage, val, c.Elems[idx], cmpOpts{}, fmt.Sprintf("array #%d Get(%d)", c.CID, idx)); mmx != nil {
			return w.viol(class, "%s", mmx.msg)
		}
		w.result("get %d=%s", idx, describe(c.Elems[idx]))
	}
	if a.Count() != uint64(len(c.Elems)) {
		return w.viol(class, "array #%d: Count()=%d after %s, model %d", c.CID, a.Count(), st.Op, len(c.Elems))
	}
	return nil
}

// checkReturned compares a storable handed back by the library with the model's previous value.
func (w *World) checkReturned(class, what string, s atree.Storable, old MVal) *Violation {
	if s == nil {
		return w.viol(class, "%s: library returned nil, model had %s", what, describe(old))
	}
	if w.Cfg.LazyDispose {
		// like a consumer that frees a referenced large value without reading it: only the shape is checked
		in, _ := unwrapM(old)
		cur := s
		for {
			ws, ok := cur.(SomeS)
			if !ok {
				break
			}
			cur = ws.S
		}
		if _, isStr := in.(MStr); isStr {
			if _, isRef := cur.(atree.SlabIDStorable); isRef {
				w.Stats.Inc("dispose.unloaded-reference")
				return nil
			}
		}
	}
	v, err := s.StoredValue(w.Storage)
	if err != nil {
		return w.viol(class, "%s: StoredValue failed: %v", what, err)
	}
	if mmx := w.cmpValue(w.Storage, v, old, cmpOpts{}, what); mmx != nil {
		return w.viol(class, "%s", mmx.msg)
	}
	return nil
}

func (w *World) execMap(st *Step) *Violation {
	c, h, v := w.target(st, true)
	if c == nil || v != nil {
		return v
	}
	m := h.(*atree.OrderedMap)
	class := resClass(c)
	km, ok := scalarOf(st.K)
	if !ok {
		return nil
	}
	key := w.valueOfKey(km)
	idx := c.findKey(km)

	switch st.Op {
	case "m.set":
		if idx < 0 {
			if _, refuse := w.collisionRefusal(c, km, idx); refuse {
				// the model predicts a collision-limit refusal of this insertion
				return w.execRefusedSet(st, c, m, key, km, nil, nil)
			}
		}
		val, mv, err := w.materialize(st.V, c.Owner, c)
		if err != nil {
			if err == errSkip {
				return nil
			}
			if vv, ok := err.(*Violation); ok {
				return vv
			}
			return w.viol(class, "building the value failed: %v", err)
		}
		if idx >= 0 {
			if ch := childOf(mv); ch != nil && childOf(c.Vals[idx]) == ch {
				return nil
			}
		}
		existing, err := m.Set(w.cmp, w.hip, key, val)
		if err != nil {
			return w.viol(class, "map #%d: Set(%s) failed: %v", c.CID, describe(km), err)
		}
		if idx < 0 {
			if existing != nil {
				return w.viol(class, "map #%d: Set of new key %s returned an existing value", c.CID, describe(km))
			}
			c.Keys = append(c.Keys, km)
			c.Vals = append(c.Vals, mv)
			w.attach(c, mv)
			w.result("mset new %s", describe(km))
		} else {
			old := c.Vals[idx]
			c.Vals[idx] = mv
			w.attach(c, mv)
			if vv := w.checkReturned(class, fmt.Sprintf("map #%d Set(%s) previous value", c.CID, describe(km)), existing, old); vv != nil {
				return vv
			}
			w.Stats.Inc("res.map.update")
			w.result("mset upd %s old=%s", describe(km), describe(old))
			if vv := w.detached(old, existing, st.Keep); vv != nil {
				return vv
			}
		}

	case "m.get":
		val, err := m.Get(w.cmp, w.hip, key)
		if idx < 0 {
			w.Stats.Inc("reject.key")
			if msg := checkErr(err, wantKeyNotFound); msg != "" {
				return w.viol("reject.category", "map #%d Get of absent key %s: %s", c.CID, describe(km), msg)
			}
			w.result("mget absent")
			return nil
		}
		if err != nil {
			return w.viol(class, "map #%d: Get(%s) of a present key failed: %v", c.CID, describe(km), err)
		}
		if mmx := w.cmpValue(w.Storage, val, c.Vals[idx], cmpOpts{}, fmt.Sprintf("map #%d Get(%s)", c.CID, describe(km))); mmx != nil {
			return w.viol(class, "%s", mmx.msg)
		}
		w.result("mget %s=%s", describe(km), describe(c.Vals[idx]))

	case "m.has":
		has, err := m.Has(w.cmp, w.hip, key)
		if err != nil {
			return w.viol(class, "map #%d: Has(%s) failed: %v", c.CID, describe(km), err)
		}
		if has != (idx >= 0) {
			return w.viol(class, "map #%d: Has(%s)=%v, model %v", c.CID, describe(km), has, idx >= 0)
		}
		w.result("mhas %v", has)

	case "m.remove":
		ks, vs, err := m.Remove(w.cmp, w.hip, key)
		if idx < 0 {
			w.Stats.Inc("reject.key")
			if msg := checkErr(err, wantKeyNotFound); msg != "" {
				return w.viol("reject.category", "map #%d Remove of absent key %s: %s", c.CID, describe(km), msg)
			}
			w.result("mrem absent")
			return nil
		}
		if err != nil {
			return w.viol(class, "map #%d: Remove(%s) of a present key failed: %v", c.CID, describe(km), err)
		}
		old := c.Vals[idx]
		c.Keys = append(c.Keys[:idx], c.Keys[idx+1:]...)
		c.Vals = append(c.Vals[:idx], c.Vals[idx+1:]...)
		if vv := w.checkReturned(class, fmt.Sprintf("map #%d Remove(%s) removed key", c.CID, describe(km)), ks, km); vv != nil {
			return vv
		}
		if vv := w.checkReturned(class, fmt.Sprintf("map #%d Remove(%s) removed value", c.CID, describe(km)), vs, old); vv != nil {
			return vv
		}
		w.Stats.Inc("res.map.remove-present")
		w.result("mrem %s old=%s", describe(km), describe(old))
		if err := w.disposeStorable(ks); err != nil {
			return w.viol("dispose", "disposing a removed key failed: %v", err)
		}
		if vv := w.detached(old, vs, st.Keep); vv != nil {
			return vv
		}
	}
	if m.Count() != uint64(len(c.Keys)) {
		return w.viol(class, "map #%d: Count()=%d after %s, model %d", c.CID, m.Count(), st.Op, len(c.Keys))
	}
	return nil
}

func (w *World) execSetType(st *Step) *Violation {
	c := w.Model.Conts[st.C]
	if c == nil || st.T == nil {
		return nil
	}
	h, v := w.handle(c)
	if v != nil {
		return v
	}
	var err error
	if c.IsMap {
		err = h.(*atree.OrderedMap).SetType(*st.T)
	} else {
		err = h.(*atree.Array).SetType(*st.T)
	}
	if err != nil {
		return w.viol(resClass(c), "container #%d: SetType failed: %v", c.CID, err)
	}
	c.Type = *st.T
	w.result("settype")
	return nil
}

func (w *World) execCount(st *Step) *Violation {
	c := w.Model.Conts[st.C]
	if c == nil {
		return nil
	}
	h, v := w.handle(c)
	if v != nil {
		return v
	}
	var n uint64
	var t atree.TypeInfo
	var vid RegID
	if c.IsMap {
		m := h.(*atree.OrderedMap)
		n, t, vid = m.Count(), m.Type(), vidOf(m)
	} else {
		a := h.(*atree.Array)
		n, t, vid = a.Count(), a.Type(), vidOf(a)
	}
	if n != uint64(c.Count()) || !typeInfoEqual(t, c.Type) {
		return w.viol(resClass(c), "container #%d: Count()=%d Type()=%v, model %d %v", c.CID, n, t, c.Count(), c.Type)
	}
	if vid != c.VID {
		return w.viol("valueid", "container #%d: ValueID()=%s, model %s", c.CID, vid, c.VID)
	}
	w.result("count %d %v", n, t)
	return nil
}

func (w *World) execPopAll(st *Step) *Violation {
	c := w.Model.Conts[st.C]
	if c == nil {
		return nil
	}
	h, v := w.handle(c)
	if v != nil {
		return v
	}
	class := resClass(c)
	// drop handles of nested containers: they are about to be disposed of
	w.Model.eachChild(c, func(ch *MCont) { w.dropHandles(ch) })
	var viol *Violation
	i := 0
	if c.IsMap {
		// judged against the seed the map reports now (a re-materialised compact map may have adopted the shared seed)
		order := w.mapOrder(c, h.(*atree.OrderedMap))
		err := h.(*atree.OrderedMap).PopIterate(func(ks, vs atree.Storable) {
			if viol != nil {
				return
			}
			if i >= len(order) {
				viol = w.viol(class, "map #%d: PopIterate yields more than %d entries", c.CID, len(order))
				return
			}
			idx := order[len(order)-1-i]
			i++
			kv, err := ks.StoredValue(w.Storage)
			if err != nil {
				viol = w.viol(class, "map #%d: PopIterate key StoredValue failed: %v", c.CID, err)
				return
			}
			km, ok := modelOfScalar(kv)
			if !ok || c.findKey(km) < 0 {
				viol = w.viol(class, "map #%d: PopIterate yields key %v that the model does not hold", c.CID, kv)
				return
			}
			got := c.findKey(km)
			if vv := w.checkReturned(class, fmt.Sprintf("map #%d PopIterate value of %s", c.CID, describe(km)), vs, c.Vals[got]); vv != nil {
				viol = vv
				return
			}
			if got != idx {
				viol = w.viol("order.pop", "map #%d: PopIterate position %d yields key %s, reverse canonical order wants %s",
					c.CID, i-1, describe(km), describe(c.Keys[idx]))
				return
			}
			if err := w.disposeStorable(ks); err != nil {
				viol = w.viol("dispose", "disposing a popped key failed: %v", err)
				return
			}
			if err := w.disposeStorable(vs); err != nil {
				viol = w.viol("dispose", "disposing a popped value failed: %v", err)
			}
		})
		if viol != nil {
			return viol
		}
		if err != nil {
			return w.viol(class, "map #%d: PopIterate failed: %v", c.CID, err)
		}
		if i != len(order) {
			return w.viol(class, "map #%d: PopIterate yields %d entries, model %d", c.CID, i, len(order))
		}
	} else {
		n := len(c.Elems)
		err := h.(*atree.Array).PopIterate(func(s atree.Storable) {
			if viol != nil {
				return
			}
			if i >= n {
				viol = w.viol(class, "array #%d: PopIterate yields more than %d elements", c.CID, n)
				return
			}
			idx := n - 1 - i
			i++
			if vv := w.checkReturned(class, fmt.Sprintf("array #%d PopIterate element %d", c.CID, idx), s, c.Elems[idx]); vv != nil {
				if vv.Class == class {
					vv.Class = "order.pop"
				}
				viol = vv
				return
			}
			if err := w.disposeStorable(s); err != nil {
				viol = w.viol("dispose", "disposing a popped element failed: %v", err)
			}
		})
		if viol != nil {
			return viol
		}
		if err != nil {
			return w.viol(class, "array #%d: PopIterate failed: %v", c.CID, err)
		}
		if i != n {
			return w.viol(class, "array #%d: PopIterate yields %d elements, model %d", c.CID, i, n)
		}
	}
	w.Model.eachChild(c, func(ch *MCont) { w.Model.unregister(ch) })
	c.Elems, c.Keys, c.Vals = nil, nil, nil
	w.result("popall %d", i)
	w.Stats.Inc("popall.nonempty:" + fmt.Sprint(i > 0))
	return nil
}

// execDispose disposes of a whole root (live or detached) container.
func (w *World) execDispose(st *Step) *Violation {
	c := w.Model.Conts[st.C]
	if c == nil || c.Parent != nil {
		return nil
	}
	w.dropHandles(c)
	w.Model.unregister(c)
	w.noteDisposed(c)
	if err := w.disposeStorable(atree.SlabIDStorable(c.VID.SlabID())); err != nil {
		return w.viol("dispose", "disposing root #%d failed: %v", c.CID, err)
	}
	w.result("dispose")
	return nil
}

// execSetFail: an update of an existing key whose key comparison fails with an injected error.
// The request is rejected inside the library (after it obtained a digester); the model is unchanged.
func (w *World) execSetFail(st *Step) *Violation {
	c, h, v := w.target(st, true)
	if c == nil || v != nil {
		return v
	}
	km, ok := scalarOf(st.K)
	if !ok || c.findKey(km) < 0 {
		return nil
	}
	w.Ctl.Reset()
	w.Ctl.FailAt["cmp"] = 1
	_, err := h.(*atree.OrderedMap).Set(w.cmp, w.hip, w.valueOfKey(km), U64(1))
	fired := w.Ctl.Fired["cmp"]
	w.Ctl.Reset()
	if fired > 0 {
		w.Stats.Inc("fault.callback.cmp-in-set")
		if err == nil {
			return w.viol("res.map", "map #%d: Set whose key comparison failed returned no error", c.CID)
		}
	} else if err != nil {
		return w.viol("res.map", "map #%d: Set failed without the injected fault firing: %v", c.CID, err)
	} else {
		// no comparison was needed?  then the update happened
		idx := c.findKey(km)
		old := c.Vals[idx]
		c.Vals[idx] = MU64(1)
		if ch := childOf(old); ch != nil {
			w.dropHandles(ch)
			w.Model.unregister(ch)
		}
	}
	w.result("msetfail")
	return nil
}

// execFailStorable: a mutation whose value cannot produce its storable (the value's own Storable() fails).
// The request must return an error and, like on a plain sequence / dictionary, change nothing.
func (w *World) execFailStorable(st *Step) *Violation {
	c := w.Model.Conts[st.C]
	if c == nil {
		return nil
	}
	h, v := w.handle(c)
	if v != nil {
		return v
	}
	mv, ok := scalarOf(st.V)
	if !ok {
		return nil
	}
	val, _ := scalarValueOf(mv)
	class := resClass(c)
	w.Ctl.Reset()
	w.Ctl.FailAt["storable"] = 1
	var err error
	var what string
	if c.IsMap {
		km, ok := scalarOf(st.K)
		if !ok {
			w.Ctl.Reset()
			return nil
		}
		what = "Set(" + describe(km) + ")"
		_, err = h.(*atree.OrderedMap).Set(w.cmp, w.hip, w.valueOfKey(km), val)
	} else {
		a := h.(*atree.Array)
		n := uint64(len(c.Elems))
		switch st.Sub {
		case "set":
			if n == 0 {
				w.Ctl.Reset()
				return nil
			}
			what = "Set"
			_, err = a.Set(st.Pos%n, val)
		case "insert":
			what = "Insert"
			err = a.Insert(st.Pos%(n+1), val)
		default:
			what = "Append"
			err = a.Append(val)
		}
	}
	fired := w.Ctl.Fired["storable"]
	w.Ctl.Reset()
	if fired == 0 {
		if err != nil {
			// rejected before the value was asked for its storable (e.g. by the collision limit): nothing changed
			w.result("failstor rejected earlier")
			return nil
		}
		return w.viol("harness", "failstor: the mutation succeeded without asking the value for its storable")
	}
	w.Stats.Inc("fault.callback.storable")
	if err == nil {
		return w.viol(class, "container #%d: %s with a value whose Storable() failed returned no error", c.CID, what)
	}
	if w.CheckNow != nil {
		if v := w.CheckNow(w); v != nil {
			return v
		}
	}
	// unchanged: count now, content at the next deep comparison
	var cnt uint64
	if c.IsMap {
		cnt = h.(*atree.OrderedMap).Count()
	} else {
		cnt = h.(*atree.Array).Count()
	}
	if cnt != uint64(c.Count()) {
		return w.viol(class, "container #%d: Count()=%d after a %s that failed because the value had no storable, model %d", c.CID, cnt, what, c.Count())
	}
	w.result("failstor")
	return nil
}

// execProbeRemoved looks up the root slab id of a container that was disposed of earlier: whatever layer
// serves the answer (write set, read cache, ledger), the slab is gone and cannot be opened as a container.
// (An inlined child that was disposed of never had a register; looking its id up must miss as well.)
func (w *World) execProbeRemoved(st *Step) *Violation {
	if len(w.Disposed) == 0 {
		return nil
	}
	id := w.Disposed[int(st.Pos%uint64(len(w.Disposed)))]
	// the id may have been re-used by nothing: slab indexes are never re-issued within a run, except after a
	// crash with a reverting allocator - then the probe list is stale and is dropped
	for _, c := range w.Model.Conts {
		if c.VID == id {
			return nil
		}
	}
	if _, ok := w.Ledger.Regs[id]; ok && w.Cfg.AllocRevert {
		// could be a re-issued index after a crash: only judge ids that the current ledger does not hold
	}
	slab, found, err := w.Storage.Retrieve(id.SlabID())
	w.Stats.Inc("probe.removed")
	if err != nil {
		return w.viol("probe.error", "Retrieve of the disposed slab %s failed: %v", id, err)
	}
	if found || slab != nil {
		// is it really the old one?  a new large-value slab or child may legitimately have received the index after an allocator revert
		if w.Cfg.AllocRevert {
			return nil
		}
		return w.viol("probe.resurrected", "slab %s of a container that was disposed of is still served by the storage", id)
	}
	w.result("probe gone")
	return nil
}

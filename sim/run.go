package sim

// One run = config + online generation/execution + oracles (DESIGN §2.2).

import (
	"crypto/sha256"
	"encoding/hex"
	"fmt"
	"strings"

	"github.com/onflow/atree"
)

type RunResult struct {
	Seed       uint64     `json:"seed"`
	Trace      *Trace     `json:"trace,omitempty"`
	Violation  *Violation `json:"violation,omitempty"`
	Cut        *Violation `json:"cut,omitempty"` // divergence outside this property's oracles
	NonTrivial bool       `json:"nontrivial"`
	Hash       string     `json:"hash"`
	Steps      int        `json:"steps"`
	Events     int        `json:"events"`
	Sample     string     `json:"sample,omitempty"`
	Digest     string     `json:"digest,omitempty"` // digest of the ledger history (cross-process determinism)
	Extra      map[string]any `json:"extra,omitempty"`
}

// PropSpec describes how a property is decided.
type PropSpec struct {
	ID      string
	Level   string
	Verdict []string // oracle class prefixes that are verdicts for this property
	Rule    string   // evidence: generation + non-triviality rule
	Assumptions   []string
	ExpectedReach []string // stats keys that a healthy batch is expected to hit
	Directed []func() *Trace // fixed scenarios replayed by worker 0 before the random runs (regressions of recorded findings)
	Run     func(ps *PropSpec, seed uint64, tier string, stats *Stats) *RunResult
	Replay  func(ps *PropSpec, tr *Trace, stats *Stats) *RunResult
}

var Props = map[string]*PropSpec{}

func (ps *PropSpec) isVerdict(class string) bool {
	for _, p := range ps.Verdict {
		if class == p || strings.HasPrefix(class, p+".") || strings.HasPrefix(class, p) && strings.HasSuffix(p, ".") {
			return true
		}
	}
	return false
}

// DebugHook is a developer aid (see debug_test.go).
var DebugHook func(w *World, i int, st *Step, v *Violation)

var slabChoices = []uint32{256, 256, 256, 257, 300, 300, 384, 512, 512, 1000, 1024, 1024, 1536, 2048, 4096, 8192, 32768}

func pickSlab(r *Rng, tier string) uint32 {
	if r.Chance(0.12) {
		return uint32(256 + r.Intn(2048-256))
	}
	if r.Chance(0.02) {
		return uint32(256 + r.Intn(32768-256))
	}
	return slabChoices[r.Intn(len(slabChoices))]
}

func baseConfig(r *Rng, profile, tier string) Config {
	cfg := Config{
		Profile:      profile,
		Slab:         pickSlab(r, tier),
		CollLimit:    255,
		BaseSeam:     r.Chance(0.3),
		AllocRevert:  r.Chance(0.5),
		OracleStride: []int{1, 3, 7, 16, 40}[r.Pick([]int{2, 3, 3, 2, 1})],
		MaxSteps:     r.Range(30, 260),
		LazyDispose:  r.Chance(0.3),
	}
	if tier == "thorough" && r.Chance(0.3) {
		cfg.MaxSteps = r.Range(260, 700)
	}
	return cfg
}

// stdLoop drives generation (gen != nil) or replay of tr.Steps against w.
// check is called at the oracle stride and at the end.
func stdLoop(ps *PropSpec, w *World, tr *Trace, gen *Gen, check func(final bool) *Violation) (*Violation, *Violation) {
	n := len(tr.Steps)
	if gen != nil {
		n = w.Cfg.MaxSteps
	}
	classify := func(v *Violation) (*Violation, *Violation) {
		if v == nil {
			return nil, nil
		}
		if ps.isVerdict(v.Class) {
			return v, nil
		}
		// A divergence outside this property's oracles: evaluate the property's own oracles
		// once on the current state, then cut the run (DESIGN 6, "one property per check").
		if check != nil {
			var v2 *Violation
			func() {
				defer func() { _ = recover() }()
				v2 = check(true)
			}()
			if v2 != nil && ps.isVerdict(v2.Class) {
				return v2, nil
			}
		}
		return nil, v
	}
	for i := 0; i < n; i++ {
		var st Step
		if gen != nil {
			st = gen.Next()
			tr.Steps = append(tr.Steps, st)
		} else {
			st = tr.Steps[i]
		}
		w.StepNo = i
		if w.BeforeStep != nil {
			w.BeforeStep(w, &st)
		}
		v := w.execGuarded(&st)
		if v == nil && w.AfterStep != nil {
			v = guardedCheck(w, func(bool) *Violation { return w.AfterStep(w, &st) }, false)
		}
		if DebugHook != nil {
			DebugHook(w, i, &st, v)
		}
		if v == nil && check != nil && w.Cfg.OracleStride > 0 && (i+1)%w.Cfg.OracleStride == 0 {
			v = guardedCheck(w, check, false)
		}
		if v != nil {
			return classify(v)
		}
	}
	w.StepNo = n
	if check != nil {
		if v := guardedCheck(w, check, true); v != nil {
			return classify(v)
		}
	}
	return nil, nil
}

// guardedCheck runs the stride/final oracles; a library panic while they read the containers is a violation, not a crash.
func guardedCheck(w *World, check func(final bool) *Violation, final bool) (v *Violation) {
	defer func() {
		if r := recover(); r != nil {
			v = w.viol("panic", "library panicked while the state was being read back: %v", r)
		}
	}()
	return check(final)
}

// Armed describes a fault armed for the next step only.
type Armed struct {
	Kind string // cmp | hip | storable | decode (panic inside the k-th callback) | alloc | read (ledger error)
	K    int
}

// execGuarded runs one step with the armed fault (if any) installed, and turns an
// injected in-operation crash, or an operation that failed because of an injected
// ledger fault, into a crash: in-memory state is abandoned, the model reverts to the last commit.
func (w *World) execGuarded(st *Step) (v *Violation) {
	if st.Op == "arm" {
		if st.N > 0 {
			w.armed = &Armed{Kind: st.Sub, K: st.N}
		}
		return nil
	}
	armed := w.armed
	w.armed = nil
	firedBefore := 0
	if armed != nil {
		switch armed.Kind {
		case "alloc":
			w.Ledger.SetPlan(&FaultPlan{FailAllocAt: map[int]bool{armed.K: true}})
			firedBefore = w.Ledger.FaultsFired["ledger.alloc-error"]
		case "read":
			w.Ledger.SetPlan(&FaultPlan{FailReadAt: map[int]bool{armed.K: true}})
			firedBefore = w.Ledger.FaultsFired["ledger.read-error"]
		default:
			w.Ctl.Reset()
			w.Ctl.FailAt[armed.Kind] = armed.K
			w.Ctl.Panic = true
		}
	}
	disarm := func() {
		if armed != nil {
			w.Ctl.Reset()
			if st.Op != "commit" && st.Op != "reopen" {
				w.Ledger.SetPlan(nil)
			}
		}
	}
	defer func() {
		if r := recover(); r != nil {
			if _, ok := r.(injectedPanic); ok {
				w.Stats.Inc("crash.panic-in-callback")
				disarm()
				w.Ledger.SetPlan(nil)
				if w.commitJournal != nil {
					// crash in the middle of a commit: the transactional ledger rolls the attempt back
					w.Ledger.Regs = w.commitJournal
					w.commitJournal = nil
					w.Stats.Inc("crash.mid-commit-rollback")
				}
				w.Ledger.BeginPhase("op", false)
				v = w.execCrash(&Step{Op: "crash", Sub: "abandon"})
				return
			}
			panic(r)
		}
	}()
	v = w.Exec(st)
	if armed != nil && (armed.Kind == "alloc" || armed.Kind == "read") {
		key := "ledger." + armed.Kind + "-error"
		fired := w.Ledger.FaultsFired[key] - firedBefore
		disarm()
		if fired > 0 {
			// the operation met an injected ledger error; whatever it returned, its in-memory
			// state is not trusted any further: crash and recover
			w.Stats.Inc("crash.after-ledger-error")
			return w.execCrash(&Step{Op: "crash", Sub: "abandon"})
		}
		return v
	}
	disarm()
	return v
}

func traceHash(tr *Trace) string {
	h := sha256.Sum256(tr.JSON())
	return hex.EncodeToString(h[:8])
}

func sampleOf(tr *Trace, n int) string {
	var sb strings.Builder
	fmt.Fprintf(&sb, "slab=%d steps=%d: ", tr.Config.Slab, len(tr.Steps))
	for i, s := range tr.Steps {
		if i >= n {
			sb.WriteString("...")
			break
		}
		sb.WriteString(s.String())
		sb.WriteString(" ")
	}
	return sb.String()
}

// shapeProbes records reach probes about the trees on ledger l (transient storage).
func (w *World) shapeProbes(l *SimLedger, m *Model) (maxLevels, maxSlabs int) {
	st := w.newStorage(l, nil)
	for _, r := range m.Roots() {
		if r.Volatile {
			continue
		}
		v, err := w.openRoot(st, r)
		if err != nil {
			continue
		}
		switch x := v.(type) {
		case *atree.Array:
			if s, err := atree.GetArrayStats(x); err == nil {
				if int(s.Levels) > maxLevels {
					maxLevels = int(s.Levels)
				}
				if int(s.SlabCount()) > maxSlabs {
					maxSlabs = int(s.SlabCount())
				}
				if s.StorableSlabCount > 0 {
					w.Stats.Inc("reach.large-value-slab")
				}
			}
		case *atree.OrderedMap:
			if s, err := atree.GetMapStats(x); err == nil {
				if int(s.Levels) > maxLevels {
					maxLevels = int(s.Levels)
				}
				if int(s.SlabCount()) > maxSlabs {
					maxSlabs = int(s.SlabCount())
				}
				if s.CollisionDataSlabCount > 0 {
					w.Stats.Inc("reach.external-collision-slab")
				}
				if s.StorableSlabCount > 0 {
					w.Stats.Inc("reach.large-value-slab")
				}
			}
		}
	}
	return
}

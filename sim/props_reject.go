package sim

// C18: rejected requests are categorised and leave no trace; callback failures during lookups are external errors.

import (
	"bytes"
	"errors"
	"fmt"

	"github.com/onflow/atree"
)

type traceSnap struct {
	regs    map[RegID][]byte
	pending string
}

func (w *World) snapTrace() (*traceSnap, error) {
	l, err := w.ViewLedger()
	if err != nil {
		return nil, err
	}
	s, r := w.PendingIDs()
	return &traceSnap{l.Regs, fmt.Sprint(s, r)}, nil
}

func (w *World) compareTrace(pre *traceSnap, what string) *Violation {
	post, err := w.snapTrace()
	if err != nil {
		return w.viol("reject.trace", "%s: the state can no longer be encoded: %v", what, err)
	}
	if pre.pending != post.pending {
		return w.viol("reject.trace", "%s changed the pending write set: %s -> %s", what, pre.pending, post.pending)
	}
	if len(pre.regs) != len(post.regs) {
		return w.viol("reject.trace", "%s changed the set of registers a commit would write (%d -> %d)", what, len(pre.regs), len(post.regs))
	}
	for id, b := range post.regs {
		if !bytes.Equal(pre.regs[id], b) {
			return w.viol("reject.trace", "%s changed the bytes a commit would write for register %s", what, id)
		}
	}
	return nil
}

// willReject predicts from the model whether a step is an argument-invalid request.
func (w *World) willReject(st *Step) bool {
	c := w.Model.Conts[st.C]
	switch st.Op {
	case "a.oob":
		return c != nil && !c.IsMap
	case "badid":
		return true
	case "m.get", "m.remove":
		if c == nil || !c.IsMap {
			return false
		}
		km, ok := scalarOf(st.K)
		return ok && c.findKey(km) < 0
	case "m.set":
		if c == nil || !c.IsMap {
			return false
		}
		km, ok := scalarOf(st.K)
		if !ok {
			return false
		}
		_, refuse := w.collisionRefusal(c, km, c.findKey(km))
		return refuse
	case "iter":
		if c == nil || c.IsMap || st.Sub != "badrange" {
			return false
		}
		n := uint64(len(c.Elems))
		return st.Pos > n || st.End > n || st.Pos > st.End
	}
	return false
}

func wrapsInjected(err error) bool {
	var ee *atree.ExternalError
	return errors.As(err, &ee) && (errors.Is(err, ErrInjected) || errors.Is(err, ErrLedgerFault))
}

func init() {
	extraOps["badid"] = func(w *World, st *Step) *Violation {
		w.Stats.Inc("reject.undefined-id")
		var err error
		switch st.Sub {
		case "open.arr":
			_, err = atree.NewArrayWithRootID(w.Storage, atree.SlabIDUndefined)
		case "open.map":
			_, err = atree.NewMapWithRootID(w.Storage, atree.SlabIDUndefined, atree.NewDefaultDigesterBuilder())
		case "store":
			err = w.Storage.Store(atree.SlabIDUndefined, nil)
		case "open.absent", "open.nonroot":
			// a well-formed identifier that names no container: nothing stored under it, or a slab that is not the
			// root of a value (a non-root data / index slab, an external collision group, a large-value slab).
			// The property names no error type for these; demanded: an error (no panic), and no trace.
			id := RegID{1, 1<<50 + st.Pos%1000}
			if st.Sub == "open.nonroot" {
				l, verr := w.ViewLedger()
				if verr != nil {
					return nil
				}
				var cands []RegID
				for _, x := range l.SortedIDs() {
					if raw := l.Regs[x]; len(raw) >= 2 && raw[1]&0x80 == 0 {
						cands = append(cands, x)
					}
				}
				if len(cands) == 0 {
					return nil
				}
				id = cands[int(st.Pos%uint64(len(cands)))]
				w.Stats.Inc("reject.open-nonroot")
			}
			var e1, e2 error
			func() {
				defer func() {
					if r := recover(); r != nil {
						e1 = nil
						e2 = fmt.Errorf("panic: %v", r)
					}
				}()
				_, e1 = atree.NewArrayWithRootID(w.Storage, id.SlabID())
				_, e2 = atree.NewMapWithRootID(w.Storage, id.SlabID(), atree.NewDefaultDigesterBuilder())
			}()
			if e1 == nil || e2 == nil || (e2 != nil && len(e2.Error()) > 6 && e2.Error()[:6] == "panic:") {
				return w.viol("reject.category", "opening %s, which names no container (%s), as array / as map: %v / %v; want an error from both", id, st.Sub, e1, e2)
			}
			w.result("badid")
			return nil
		default:
			err = w.Storage.Remove(atree.SlabIDUndefined)
		}
		if msg := checkErr(err, wantSlabIDErr); msg != "" {
			return w.viol("reject.category", "%s with the undefined slab id: %s", st.Sub, msg)
		}
		w.result("badid")
		return nil
	}
	extraGens["badid"] = func(g *Gen) (Step, bool) {
		return Step{Op: "badid", Sub: []string{"open.arr", "open.map", "store", "remove", "open.absent", "open.nonroot", "open.nonroot"}[g.R.Intn(7)], Pos: g.R.U64() % (1 << 32)}, true
	}

	// lookupfault: enumerate every k-th callback failure of one lookup
	extraOps["lookupfault"] = func(w *World, st *Step) *Violation {
		c := w.Model.Conts[st.C]
		if c == nil {
			return nil
		}
		// make the lookup read from the ledger: commit, evict
		if !c.Root().Volatile {
			if v := w.execCommit(&Step{Op: "commit", Flavour: "fc", Workers: 1}); v != nil {
				return v
			}
		}
		// the mutating sub-kinds (set/remove/a.set: the key search of an update is a lookup too) run against
		// a throw-away storage over the committed ledger; whatever they changed is abandoned, never compared
		mutating := st.Sub == "set" || st.Sub == "remove" || st.Sub == "a.set" || st.Sub == "a.insert" || st.Sub == "a.remove" || st.Sub == "a.append"
		if mutating && c.Root().Volatile {
			return nil
		}
		evict := func() {
			if mutating {
				w.Storage = w.newStorage(w.Ledger, w.Ctl)
			} else {
				w.Storage.DropCache()
			}
			w.Handles = map[int]any{}
		}
		evict()
		if c.Parent != nil && !mutating {
			// the faulted call must be the lookup itself, not the re-acquisition of the handle: look up on the root
			// (an update of a nested container obtains its handle fault-free first: the faults then land in the
			// update and in the notification of the ancestors)
			c = c.Root()
		}
		h, v := w.handle(c)
		if v != nil {
			return v
		}
		var rawErr error // what the library returned, before refusals are filtered out
		lookupInner := func() error {
			switch {
			case c.IsMap && st.Sub == "iter":
				return h.(*atree.OrderedMap).Iterate(w.cmp, w.hip, func(k, v atree.Value) (bool, error) { return true, nil })
			case c.IsMap && (st.Sub == "set" || st.Sub == "remove"):
				km, ok := scalarOf(st.K)
				if !ok {
					return nil
				}
				var err error
				if st.Sub == "set" {
					_, err = h.(*atree.OrderedMap).Set(w.cmp, w.hip, w.valueOfKey(km), U64(7))
				} else {
					_, _, err = h.(*atree.OrderedMap).Remove(w.cmp, w.hip, w.valueOfKey(km))
				}
				// a fault-free refusal (absent key, collision limit) is a legitimate outcome of the dry run
				rawErr = err
				var knf *atree.KeyNotFoundError
				var cle *atree.CollisionLimitError
				if errors.As(err, &knf) || errors.As(err, &cle) {
					return nil
				}
				return err
			case !c.IsMap && (st.Sub == "a.set" || st.Sub == "a.remove"):
				n := uint64(len(c.Elems))
				if n == 0 {
					return nil
				}
				var err error
				if st.Sub == "a.set" {
					_, err = h.(*atree.Array).Set(st.Pos%n, U64(7))
				} else {
					_, err = h.(*atree.Array).Remove(st.Pos % n)
				}
				return err
			case !c.IsMap && st.Sub == "a.insert":
				return h.(*atree.Array).Insert(st.Pos%uint64(len(c.Elems)+1), U64(7))
			case !c.IsMap && st.Sub == "a.append":
				return h.(*atree.Array).Append(U64(7))
			case c.IsMap && st.Sub == "has":
				km, ok := scalarOf(st.K)
				if !ok {
					return nil
				}
				_, err := h.(*atree.OrderedMap).Has(w.cmp, w.hip, w.valueOfKey(km))
				return err
			case c.IsMap:
				km, ok := scalarOf(st.K)
				if !ok {
					return nil
				}
				_, err := h.(*atree.OrderedMap).Get(w.cmp, w.hip, w.valueOfKey(km))
				var knf *atree.KeyNotFoundError
				if errors.As(err, &knf) {
					return nil
				}
				return err
			case st.Sub == "iter":
				return h.(*atree.Array).IterateReadOnly(func(v atree.Value) (bool, error) { return true, nil })
			default:
				n := uint64(len(c.Elems))
				if n == 0 {
					return nil
				}
				_, err := h.(*atree.Array).Get(st.Pos % n)
				return err
			}
		}
		lookup := func() error {
			rawErr = nil
			err := lookupInner()
			if rawErr == nil {
				rawErr = err
			}
			return err
		}
		// fault-free dry run: how many calls of each kind does this lookup make?
		w.Ctl.Reset()
		w.Ledger.SetPlan(&FaultPlan{})
		if err := lookup(); err != nil {
			w.Ledger.SetPlan(nil)
			return w.viol("res.lookup", "fault-free lookup on #%d failed: %v", c.CID, err)
		}
		counts := map[string]int{"cmp": w.Ctl.Count["cmp"], "hip": w.Ctl.Count["hip"], "read": w.Ledger.nRead, "decode": w.Ctl.Count["decode"]}
		if counts["decode"] > 12 {
			counts["decode"] = 12 // the element decoder is called once per stored element: the first dozen positions
		}
		w.Ledger.SetPlan(nil)
		if mutating {
			evict()
		}
		pre, err := w.snapTrace()
		if err != nil {
			return w.viol("harness", "%v", err)
		}
		for _, kind := range []string{"read", "cmp", "hip", "decode"} {
			n := counts[kind]
			if n > 40 {
				n = 40 // a long iteration: the first 40 positions are enumerated
			}
			for k := 1; k <= n; k++ {
				evict()
				h, v = w.handle(c)
				if v != nil {
					return v
				}
				w.Ctl.Reset()
				firedBefore := w.Ledger.FaultsFired["ledger.read-error"] + w.Ctl.Fired[kind]
				if kind == "read" {
					w.Ledger.SetPlan(&FaultPlan{FailReadAt: map[int]bool{k: true}})
				} else {
					w.Ctl.FailAt[kind] = k
				}
				err := lookup()
				w.Ledger.SetPlan(nil)
				fired := w.Ledger.FaultsFired["ledger.read-error"] + w.Ctl.Fired[kind] - firedBefore
				w.Ctl.Reset()
				if fired == 0 {
					continue // the call sequence is shorter on this attempt (cache effects): nothing injected
				}
				w.Stats.Inc("fault.callback." + kind)
				if kind == "decode" {
					// the caller's element decoder failed while a slab was being decoded: the property names no category
					// for it (the library reports a decoding failure); demanded: an error, no trace, and - below - that
					// the lookup is served when repeated (a slab that failed to decode once must not be remembered as
					// absent or half-built)
					if err == nil {
						return w.viol("lookupfault.category", "%s on #%d whose %d-th element-decoder call failed returned no error", st.Sub, c.CID, k)
					}
				} else if !wrapsInjected(err) {
					return w.viol("lookupfault.category", "%s on #%d with the %d-th %s call failing returned %T (%s) %v; want an external error wrapping the injected one", st.Sub, c.CID, k, kind, rawErr, errCategory(rawErr), rawErr)
				}
				if mutating {
					w.Stats.Inc("fault.callback.in-update")
					continue
				}
				if vv := w.compareTrace(pre, fmt.Sprintf("a lookup whose %d-th %s call failed", k, kind)); vv != nil {
					vv.Class = "lookupfault.trace"
					return vv
				}
				// the same lookup again, through the same storage and handle, now without fault: nothing was learnt
				// from the failed attempt (no slab remembered as absent, no half-built state), so it is served
				if err2 := lookup(); err2 != nil {
					return w.viol("lookupfault.retry", "%s on #%d failed when repeated without fault after its %d-th %s call had failed once: %T (%s) %v", st.Sub, c.CID, k, kind, rawErr, errCategory(rawErr), rawErr)
				}
				w.Stats.Inc("lookupfault.retried")
			}
		}
		evict()
		w.Stats.Inc("lookupfault.enumerated")
		return nil
	}
	extraGens["lookupfault"] = func(g *Gen) (Step, bool) {
		c := g.pickTarget(false, true)
		if c == nil {
			return Step{}, false
		}
		nested := c
		c = c.Root()
		st := Step{Op: "lookupfault", C: c.CID, Pos: g.genPos(c.Count())}
		if c.IsMap {
			st.Sub = []string{"get", "has", "iter", "get", "set", "remove", "set"}[g.R.Intn(7)]
			var k VSpec
			if n := len(c.Keys); n > 0 && g.R.Chance(0.8) {
				k = specOfKey(c.Keys[g.R.Intn(n)])
			} else {
				k = g.keys[g.R.Intn(len(g.keys))]
			}
			st.K = &k
		} else {
			st.Sub = []string{"get", "iter", "get", "a.set", "a.insert", "a.remove", "a.append"}[g.R.Intn(7)]
		}
		if nested != c && g.R.Chance(0.5) {
			// an update of a nested container (handle obtained fault-free, faults land in the update itself)
			if nested.IsMap {
				st.Sub = []string{"set", "remove"}[g.R.Intn(2)]
				var k VSpec
				if n := len(nested.Keys); n > 0 && g.R.Chance(0.8) {
					k = specOfKey(nested.Keys[g.R.Intn(n)])
				} else {
					k = g.keys[g.R.Intn(len(g.keys))]
				}
				st.K = &k
			} else {
				st.Sub = []string{"a.set", "a.insert", "a.remove", "a.append"}[g.R.Intn(4)]
			}
			st.C = nested.CID
			st.Pos = g.genPos(nested.Count())
		}
		return st, true
	}

	type runState struct {
		pre      *traceSnap
		rejected []int
	}
	states := map[*World]*runState{}

	ps := &PropSpec{
		ID: "C18", Level: "fault_enumeration",
		Verdict: []string{"reject.", "lookupfault.", "collide.limit", "collide.refusal-trace", "iter.range-error", "panic"},
		Rule: "at random points of mixed histories (all nesting depths; adversarial digesters with small collision limits): every kind of argument-invalid request (index = count+d on get/set/insert/remove, invalid ranges, absent keys on get/remove, collision-limit refusals, the undefined slab id on open/store/remove) must return the named error with the matching category and leave the pending write set and the bytes a commit would write unchanged; the history with the rejected steps removed must commit byte-identical registers, and a divergence met later in the run must also be met by that history (otherwise it is the trace a rejected request left in memory); rejected index requests carry values whose Storable() has side effects (large strings, detached containers offered for re-attachment), identifiers that name no container (absent, non-root slabs) must be refused without panic; a third of the runs work on wide arrays (index slabs with dozens of children); and for lookups (array get, map get/has, iteration) EVERY k-th ledger read, key comparison and hash-input call (k up to the count of a fault-free dry run of that lookup, first 40 for long iterations) is made to fail: the result must be an external error wrapping the injected one, again without trace; the first dozen element-decoder calls are made to fail as well (an error, no trace); every lookup that met a fault is then repeated without fault through the same storage and handle and must be served. Fault enumeration for callback faults, exploration for arguments. Non-trivial = >= 3 rejected requests of >= 2 kinds and >= 1 enumerated lookup on a container of >= 3 slabs; distinct by trace hash",
		ExpectedReach: []string{"reject.index", "reject.key", "reject.range", "reject.undefined-id", "c12.limit-refusal-predicted", "fault.callback.read", "fault.callback.cmp", "fault.callback.hip", "lookupfault.enumerated", "reject.twin-compared"},
	}
	hooks := stdHooks{
		config: func(r *Rng, tier string) Config {
			c := baseConfig(r, "reject", tier)
			c.CollLimit = []uint32{0, 1, 2, 255}[r.Intn(4)]
			if c.MaxSteps > 160 {
				c.MaxSteps = 160
			}
			return c
		},
		profile: func(r *Rng, cfg Config) *Profile {
			p := nestedProfile(r, cfg)
			p.Name = "reject"
			p.Owners = []uint64{1, 2}[:r.Range(1, 2)]
			p.NestedTargetBias = 0.4
			p.W["a.oob"] = 8
			if r.Sub("wide").Chance(0.35) {
				// wide arrays: index slabs with dozens of children (a rejected index must be refused on every search path)
				p.MaxElems = 400
				p.W["a.fill"] = 8
				p.RootMapShare = 0.2
			}
			p.KeepProb = []float64{0, 0.3, 0.6}[r.Intn(3)] // detached-and-kept containers get offered to rejected requests
			p.W["m.get"] = 8
			p.W["m.remove"] = 12
			p.W["iter"] = 4
			p.W["badid"] = 2
			p.W["lookupfault"] = 3
			p.W["crash"] = 0
			p.W["dropcache"] = 1
			p.DigSpec = func(r *Rng) *DigesterSpec {
				if r.Chance(0.5) {
					return nil
				}
				return &DigesterSpec{Levels: r.Range(1, 4), Alpha: [4]uint64{[]uint64{2, 3, 8}[r.Intn(3)], []uint64{0, 3}[r.Intn(2)], 0, 0}, Salt: r.U64()}
			}
			return p
		},
		setup: func(w *World) {
			rs := &runState{}
			states[w] = rs
			w.BeforeStep = func(w *World, st *Step) {
				rs.pre = nil
				if w.willReject(st) {
					rs.pre, _ = w.snapTrace()
				}
			}
			w.AfterStep = func(w *World, st *Step) *Violation {
				if rs.pre == nil {
					return nil
				}
				pre := rs.pre
				rs.pre = nil
				rs.rejected = append(rs.rejected, w.StepNo)
				w.Stats.Inc("reject.no-trace-checked")
				return w.compareTrace(pre, fmt.Sprintf("rejected request %s", st.Op))
			}
		},
		check: func(w *World, final bool) *Violation {
			return w.DeepLive(cmpOpts{})
		},
		nontrivial: func(w *World, run *Stats, levels, slabs int) bool {
			kinds := 0
			for _, k := range []string{"reject.index", "reject.key", "reject.range", "reject.undefined-id", "c12.limit-refusal-predicted"} {
				if run.C[k] > 0 {
					kinds++
				}
			}
			return kinds >= 2 && run.C["reject.no-trace-checked"] >= 3 && run.C["lookupfault.enumerated"] > 0 && slabs >= 3
		},
	}
	stdProp(ps, hooks)
	// wrap Run/Replay: after the main execution, the twin without the rejected steps must commit identical registers
	inner := func(exec func() *RunResult, tr func() *Trace) *RunResult { return exec() }
	_ = inner
	baseRun, baseReplay := ps.Run, ps.Replay
	twin := func(res *RunResult, agg *Stats) *RunResult {
		if res.Violation == nil && res.Cut != nil && res.Trace != nil && res.Cut.Step >= 0 && res.Cut.Step < len(res.Trace.Steps) {
			// The run met a divergence that is not one of C18's own verdicts.  If the same history passes that
			// point once its rejected requests are left out, the divergence is the trace a rejected request
			// left behind (in memory only: the write set and the would-be registers looked untouched).
			cutTr := *res.Trace
			cutTr.Steps = res.Trace.Steps[:res.Cut.Step+1]
			_, rejected, v1 := execRejectTwin(&cutTr, nil)
			if v1 != nil && len(rejected) > 0 {
				skip := map[int]bool{}
				for _, i := range rejected {
					skip[i] = true
				}
				if !skip[res.Cut.Step] {
					if _, _, v2 := execRejectTwin(&cutTr, skip); v2 == nil {
						res.Violation = &Violation{Class: "reject.diff", Step: res.Cut.Step, Msg: fmt.Sprintf("the history fails at step %d ([%s] %s) but passes once its %d rejected request(s) are left out", res.Cut.Step, res.Cut.Class, res.Cut.Msg, len(skip))}
						res.Cut = nil
						agg.Inc("reject.twin-outcome-differs")
						return res
					}
				}
			}
			return res
		}
		if res.Violation != nil || res.Cut != nil || res.Trace == nil {
			return res
		}
		// identify rejected steps by re-running with the predictor (pure function of the trace)
		tr := res.Trace
		full, rejected, v := execRejectTwin(tr, nil)
		if v != nil {
			return res
		}
		skip := map[int]bool{}
		for _, i := range rejected {
			skip[i] = true
		}
		if len(skip) == 0 {
			return res
		}
		without, _, v := execRejectTwin(tr, skip)
		if v != nil {
			res.Violation = &Violation{Class: "reject.diff", Step: v.Step, Msg: fmt.Sprintf("the history without its %d rejected request(s) fails: [%s] %s", len(skip), v.Class, v.Msg)}
			return res
		}
		if d := diffRegs(full, without); d != "" {
			res.Violation = &Violation{Class: "reject.diff", Step: len(tr.Steps), Msg: fmt.Sprintf("the history with %d rejected request(s) commits different registers than the history without them: %s", len(skip), d)}
			return res
		}
		agg.Inc("reject.twin-compared")
		return res
	}
	ps.Run = func(ps *PropSpec, seed uint64, tier string, agg *Stats) *RunResult {
		return twin(baseRun(ps, seed, tier, agg), agg)
	}
	ps.Replay = func(ps *PropSpec, tr *Trace, agg *Stats) *RunResult {
		return twin(baseReplay(ps, tr, agg), agg)
	}
}

// execRejectTwin executes tr (skipping the given step indexes), ends with a commit and returns the registers
// and the indexes of the steps the model predicted to be rejected.
func execRejectTwin(tr *Trace, skip map[int]bool) (map[RegID][]byte, []int, *Violation) {
	w := NewWorld(tr.Config, NewStats())
	var rejected []int
	for i := range tr.Steps {
		if skip[i] {
			continue
		}
		st := tr.Steps[i]
		if st.Op == "lookupfault" {
			// contains a commit: keep it in both executions (it is not a rejected request)
		}
		w.StepNo = i
		if w.willReject(&st) {
			rejected = append(rejected, i)
		}
		if v := w.execGuarded(&st); v != nil {
			return nil, rejected, v
		}
	}
	if v := w.execGuarded(&Step{Op: "commit", Flavour: "fc", Workers: 1}); v != nil {
		return nil, rejected, v
	}
	return w.Ledger.Regs, rejected, nil
}

package sim

// C15: slab storage is a write-back overlay (read-your-writes, last-commit recovery).
// A storage-only world: a tiny universe of identifiers and slab versions, random walks over
// every storage call with fault plans, judged step by step by the overlay model.

import (
	"bytes"
	"errors"
	"fmt"
	"sort"

	"github.com/onflow/atree"
)

const (
	verNone    = 0
	verDeleted = -1 // delta: pending removal; cache: cached as absent
)

type ovModel struct {
	ids   []RegID
	base  map[RegID]int // durable version (0 = none)
	delta map[RegID]int // missing = no pending change; verDeleted = pending removal; >0 pending store
	cache map[RegID]int // missing = not cached; verDeleted = cached as absent; >0 cached version
	// ids that must currently be loaded (pending store, or successfully read/preloaded since the last eviction)
}

func (m *ovModel) view(id RegID) int {
	if d, ok := m.delta[id]; ok {
		if d == verDeleted {
			return verNone
		}
		return d
	}
	if c, ok := m.cache[id]; ok {
		if c == verDeleted {
			return verNone
		}
		return c
	}
	return m.base[id]
}

func (m *ovModel) stateOf(id RegID) string {
	d, dok := m.delta[id]
	c, cok := m.cache[id]
	ds, cs := "-", "-"
	if dok {
		ds = fmt.Sprint(d)
	}
	if cok {
		cs = fmt.Sprint(c)
	}
	return fmt.Sprintf("%d/%s/%s", m.base[id], ds, cs)
}

// versions: registers made by the library itself (large-value slabs and a root array), decodable under any id
func versionBytes(v int) []byte {
	switch v {
	case 1:
		return append([]byte{0x10, 0x3f}, 0x62, 'v', '1')
	case 2:
		return append([]byte{0x10, 0x3f}, 0x67, 'v', 'e', 'r', 's', 'i', 'o', 'n')
	case 3:
		// root array data slab: head, extra data [type 0], elements [u64 5]
		return []byte{0x10, 0x80, 0x81, 0x00, 0x99, 0x00, 0x01, 0xd8, tagU64, 0x05}
	}
	return nil
}

func versionOfBytes(b []byte) int {
	for v := 1; v <= 3; v++ {
		if bytes.Equal(b, versionBytes(v)) {
			return v
		}
	}
	return -99
}

type storageWorld struct {
	ledger  *SimLedger
	st      *atree.PersistentSlabStorage
	m       *ovModel
	stats   *Stats
	states  map[string]bool
	trans   map[string]bool
	lastNew int
	stepNo  int
	baseSeam bool
	ctl      *CallbackCtl
}

func (sw *storageWorld) newStorage() {
	var base atree.BaseStorage
	if sw.baseSeam {
		base = &SimBase{sw.ledger}
	} else {
		base = atree.NewLedgerBaseStorage(sw.ledger)
	}
	if sw.ctl == nil {
		sw.ctl = NewCallbackCtl()
	}
	sw.st = atree.NewPersistentSlabStorage(base, encMode, decMode, MakeStorableDecoder(sw.ctl), MakeTypeInfoDecoder(nil))
}

func (sw *storageWorld) slabOf(id RegID, v int) (atree.Slab, error) {
	return atree.DecodeSlab(id.SlabID(), versionBytes(v), decMode, MakeStorableDecoder(nil), MakeTypeInfoDecoder(nil))
}

func (sw *storageWorld) verOfSlab(s atree.Slab) int {
	if s == nil {
		return verNone
	}
	b, err := atree.EncodeSlab(s, encMode)
	if err != nil {
		return -98
	}
	return versionOfBytes(b)
}

func (sw *storageWorld) viol(class, format string, args ...any) *Violation {
	return &Violation{Class: class, Step: sw.stepNo, Msg: fmt.Sprintf(format, args...)}
}

// observers and layer membership, compared with the model after every step
func (sw *storageWorld) checkObservers() *Violation {
	m := sw.m
	nd, ndOwned := 0, 0
	var size uint64
	unsaved := map[uint64]bool{}
	for _, id := range m.ids {
		d, ok := m.delta[id]
		if !ok {
			continue
		}
		nd++
		unsaved[id.Owner] = true
		if id.Owner != 0 {
			ndOwned++
			if d > 0 {
				s, _ := sw.slabOf(id, d)
				size += uint64(s.ByteSize())
			}
		}
	}
	if got := sw.st.Deltas(); int(got) != nd {
		return sw.viol("ov.observer", "Deltas()=%d, model has %d pending change(s)", got, nd)
	}
	if got := sw.st.DeltasWithoutTempAddresses(); int(got) != ndOwned {
		return sw.viol("ov.observer", "DeltasWithoutTempAddresses()=%d, model has %d owned pending change(s)", got, ndOwned)
	}
	if got := sw.st.DeltasSizeWithoutTempAddresses(); got != size {
		return sw.viol("ov.observer", "DeltasSizeWithoutTempAddresses()=%d, model %d", got, size)
	}
	for _, o := range []uint64{0, 1, 2} {
		if got := sw.st.HasUnsavedChanges(OwnerAddress(o)); got != unsaved[o] {
			return sw.viol("ov.observer", "HasUnsavedChanges(owner %d)=%v, model %v", o, got, unsaved[o])
		}
	}
	// is-loaded observation, judged by meaning
	for _, id := range m.ids {
		s := sw.st.RetrieveIfLoaded(id.SlabID())
		d, dok := m.delta[id]
		c, cok := m.cache[id]
		if s != nil {
			if got := sw.verOfSlab(s); got != m.view(id) {
				return sw.viol("ov.loaded", "RetrieveIfLoaded(%s) returns version %d, the view holds %d (state %s)", id, got, m.view(id), m.stateOf(id))
			}
		}
		mustLoaded := (dok && d > 0) || (!dok && cok && c > 0)
		if mustLoaded && s == nil {
			return sw.viol("ov.loaded", "RetrieveIfLoaded(%s) is nil although the slab is pending or was read/preloaded since the last eviction (state %s)", id, m.stateOf(id))
		}
		if !dok && !cok && s != nil {
			return sw.viol("ov.loaded", "RetrieveIfLoaded(%s) returns a slab after eviction without pending change (state %s)", id, m.stateOf(id))
		}
	}
	// registers: the ledger holds exactly the model's base, temp ids never
	for _, id := range m.ids {
		got := versionOfBytes(sw.ledger.Regs[id])
		if sw.ledger.Regs[id] == nil {
			got = verNone
		}
		if got != m.base[id] {
			return sw.viol("ov.ledger", "register %s holds version %d, model base %d", id, got, m.base[id])
		}
		if id.Owner == 0 && sw.ledger.Regs[id] != nil {
			return sw.viol("ov.temp", "temporary id %s reached the ledger", id)
		}
	}
	if len(sw.ledger.MonitorViolations) > 0 {
		return sw.viol("ov.ledger", "%s", sw.ledger.MonitorViolations[0])
	}
	// closure measure
	for _, id := range m.ids {
		s := m.stateOf(id)
		if !sw.states[s] {
			sw.states[s] = true
			sw.lastNew = sw.stepNo
		}
	}
	return nil
}

func (sw *storageWorld) exec(st *Step) *Violation {
	m := sw.m
	id := m.ids[st.C%len(m.ids)]
	pre := m.stateOf(id)
	defer func() {
		k := pre + ">" + st.Op
		if !sw.trans[k] {
			sw.trans[k] = true
			sw.lastNew = sw.stepNo
		}
	}()
	sw.stats.Inc("op." + st.Op)
	switch st.Op {
	case "s.store":
		v := 1 + st.N%3
		slab, err := sw.slabOf(id, v)
		if err != nil {
			return sw.viol("harness", "version slab: %v", err)
		}
		if err := sw.st.Store(id.SlabID(), slab); err != nil {
			return sw.viol("ov.error", "Store(%s) failed: %v", id, err)
		}
		m.delta[id] = v
	case "s.remove":
		if err := sw.st.Remove(id.SlabID()); err != nil {
			return sw.viol("ov.error", "Remove(%s) failed: %v", id, err)
		}
		m.delta[id] = verDeleted
	case "s.retrieve":
		want := m.view(id)
		if st.Fault != nil && st.Fault.ReadAt > 0 {
			// the ledger fails the read (if the read reaches the ledger at all): the call must report an error and
			// the view must stay what it was - nothing is learnt from a failed read
			fired0 := sw.ledger.FaultsFired["ledger.read-error"]
			sw.ledger.SetPlan(&FaultPlan{FailReadAt: map[int]bool{st.Fault.ReadAt: true}})
			var err error
			if st.Keep {
				_, _, err = sw.st.Retrieve(id.SlabID())
			} else {
				_, _, err = sw.st.RetrieveIgnoringDeltas(id.SlabID(), st.N%2 == 0)
			}
			sw.ledger.SetPlan(nil)
			if sw.ledger.FaultsFired["ledger.read-error"] > fired0 {
				sw.stats.Inc("fault.ledger.read-error")
				if err == nil {
					return sw.viol("ov.error", "a read of %s whose ledger access failed returned no error", id)
				}
				if !wrapsInjected(err) {
					return sw.viol("ov.error", "a read of %s whose ledger access failed returned %v, want an external error wrapping the injected one", id, err)
				}
			}
			// fall through to an ordinary read: it must see the unchanged view
		}
		if st.Fault != nil && st.Fault.DecodeAt > 0 {
			// the caller's element decoder fails while the slab is being decoded (if it is decoded at all): an error,
			// and nothing remembered about the slab
			sw.ctl.Reset()
			sw.ctl.FailAt["decode"] = st.Fault.DecodeAt
			fired0 := sw.ctl.Fired["decode"]
			var err error
			if st.Keep {
				_, _, err = sw.st.Retrieve(id.SlabID())
			} else {
				_, _, err = sw.st.RetrieveIgnoringDeltas(id.SlabID(), st.N%2 == 0)
			}
			fired := sw.ctl.Fired["decode"] > fired0
			sw.ctl.Reset()
			if fired {
				sw.stats.Inc("fault.callback.decode")
				if err == nil {
					return sw.viol("ov.error", "a read of %s whose element decoder failed returned no error", id)
				}
			}
		}
		slab, found, err := sw.st.Retrieve(id.SlabID())
		if err != nil {
			return sw.viol("ov.error", "Retrieve(%s) failed: %v", id, err)
		}
		if found != (want != verNone) || sw.verOfSlab(slab) != want {
			return sw.viol("ov.view", "Retrieve(%s) = (version %d, found %v), the view holds version %d (state %s)", id, sw.verOfSlab(slab), found, want, pre)
		}
		if _, dok := m.delta[id]; !dok {
			if _, cok := m.cache[id]; !cok && want != verNone {
				m.cache[id] = want // a successful read is cached
			}
		}
	case "s.bypass":
		// cache-bypassing read: sees cache, else ledger; never the write set; never changes the view
		want := m.base[id]
		if c, ok := m.cache[id]; ok {
			want = c
			if c == verDeleted {
				want = verNone
			}
		}
		cacheIt := st.Keep
		viewBefore := m.view(id)
		slab, found, err := sw.st.RetrieveIgnoringDeltas(id.SlabID(), cacheIt)
		if err != nil {
			return sw.viol("ov.error", "RetrieveIgnoringDeltas(%s) failed: %v", id, err)
		}
		if found != (want != verNone) || sw.verOfSlab(slab) != want {
			return sw.viol("ov.view", "RetrieveIgnoringDeltas(%s) = (version %d, found %v), committed view holds %d (state %s)", id, sw.verOfSlab(slab), found, want, pre)
		}
		if cacheIt && want != verNone {
			if _, cok := m.cache[id]; !cok {
				m.cache[id] = want
			}
		}
		if m.view(id) != viewBefore {
			return sw.viol("harness", "model: bypassing read changed the view")
		}
	case "s.commit":
		workers := 1 + st.Workers
		var plan *FaultPlan
		if st.Fault != nil {
			plan = &FaultPlan{FailWriteAt: map[int]bool{}}
			for _, k := range st.Fault.WriteAt {
				plan.FailWriteAt[k] = true
			}
		}
		pending := map[RegID]int{}
		for k, v := range m.delta {
			if k.Owner != 0 {
				pending[k] = v
			}
		}
		sw.ledger.BeginPhase("commit", true)
		sw.ledger.SetPlan(plan)
		fired0 := sw.ledger.FaultsFired["ledger.write-error"]
		var err error
		if st.Flavour == "nfc" {
			err = sw.st.NondeterministicFastCommit(workers)
		} else {
			err = sw.st.FastCommit(workers)
		}
		sw.ledger.SetPlan(nil)
		sw.ledger.BeginPhase("op", false)
		fired := sw.ledger.FaultsFired["ledger.write-error"] - fired0
		sw.stats.Add("fault.ledger.write-error", fired)
		if (err != nil) != (fired > 0) {
			return sw.viol("ov.commit", "commit returned %v with %d injected write fault(s)", err, fired)
		}
		if err != nil {
			var ee *atree.ExternalError
			if !errors.As(err, &ee) {
				return sw.viol("ov.commit", "failed commit returned %T, want an external error", err)
			}
			sw.stats.Inc("commit.partial")
		}
		// every pending owned change is now durable-and-cached, or (only after a fault) still pending
		stored, removed, _, _ := atree.VerifLayerIDs(sw.st)
		still := map[RegID]bool{}
		for _, x := range stored {
			still[RegIDOf(x)] = true
		}
		for _, x := range removed {
			still[RegIDOf(x)] = true
		}
		for k, v := range pending {
			if still[k] {
				if err == nil {
					return sw.viol("ov.commit", "after a successful commit the owned id %s is still pending", k)
				}
				continue
			}
			delete(m.delta, k)
			if v == verDeleted {
				m.base[k] = verNone
				m.cache[k] = verDeleted
			} else {
				m.base[k] = v
				m.cache[k] = v
			}
		}
	case "s.dropdeltas":
		sw.st.DropDeltas()
		m.delta = map[RegID]int{}
	case "s.dropcache":
		sw.st.DropCache()
		m.cache = map[RegID]int{}
	case "s.preload":
		var ids []atree.SlabID
		n := 0
		for i, x := range m.ids {
			if st.N&(1<<uint(i)) != 0 {
				ids = append(ids, x.SlabID())
				n++
			}
		}
		// pad with never-written ids so that the parallel path (>= 11 ids) is taken now and then
		if st.Keep {
			var pad []atree.SlabID
			for i := 0; i < 12; i++ {
				pad = append(pad, RegID{1, uint64(1000 + i)}.SlabID())
			}
			// the never-written ids go before, after or around the real ones
			switch st.N % 3 {
			case 0:
				ids = append(ids, pad...)
			case 1:
				ids = append(pad, ids...)
			default:
				ids = append(append(append([]atree.SlabID{}, pad[:5]...), ids...), pad[5:]...)
			}
		}
		views := map[RegID]int{}
		for _, x := range m.ids {
			views[x] = m.view(x)
		}
		if err := sw.st.BatchPreload(ids, 1+st.Workers); err != nil {
			return sw.viol("ov.error", "BatchPreload failed: %v", err)
		}
		for i, x := range m.ids {
			if st.N&(1<<uint(i)) != 0 && m.base[x] != verNone {
				// preloading fills the cache from the ledger; it must not change the view: it may only
				// (re)load what the ledger holds where the view is not shadowed by something newer
				if c, cok := m.cache[x]; cok && c != m.base[x] {
					return sw.viol("harness", "model: cache of %s differs from base outside a pending change", x)
				}
				m.cache[x] = m.base[x]
			}
		}
		for _, x := range m.ids {
			if m.view(x) != views[x] {
				return sw.viol("harness", "model: preload changed the view of %s", x)
			}
		}
	case "s.recreate":
		sw.newStorage()
		m.delta = map[RegID]int{}
		m.cache = map[RegID]int{}
	case "s.sweep":
		// read every id through the storage: the view, nothing else
		for _, x := range m.ids {
			want := m.view(x)
			slab, found, err := sw.st.Retrieve(x.SlabID())
			if err != nil {
				return sw.viol("ov.error", "Retrieve(%s) failed: %v", x, err)
			}
			if found != (want != verNone) || sw.verOfSlab(slab) != want {
				return sw.viol("ov.view", "Retrieve(%s) = (version %d, found %v), the view holds version %d (state %s)", x, sw.verOfSlab(slab), found, want, m.stateOf(x))
			}
			if _, dok := m.delta[x]; !dok {
				if _, cok := m.cache[x]; !cok && want != verNone {
					m.cache[x] = want
				}
			}
		}
	}
	return sw.checkObservers()
}

func genStorageStep(r *Rng, nids int) Step {
	ops := []string{"s.store", "s.remove", "s.retrieve", "s.bypass", "s.commit", "s.dropdeltas", "s.dropcache", "s.preload", "s.recreate", "s.sweep"}
	w := []int{8, 5, 8, 4, 5, 1, 2, 2, 1, 1}
	st := Step{Op: ops[r.Pick(w)], C: r.Intn(nids), N: r.Intn(64), Keep: r.Chance(0.5), Workers: r.Intn(4)}
	if st.Op == "s.retrieve" && r.Chance(0.2) {
		st.Fault = &FaultSpec{ReadAt: 1}
		if r.Chance(0.4) {
			st.Fault = &FaultSpec{DecodeAt: 1}
		}
	}
	if st.Op == "s.commit" {
		if r.Chance(0.35) {
			st.Flavour = "nfc"
		}
		if r.Chance(0.3) {
			st.Fault = &FaultSpec{WriteAt: []int{r.Range(1, 4)}}
			if r.Chance(0.3) {
				st.Fault.WriteAt = append(st.Fault.WriteAt, r.Range(1, 5))
			}
		}
	}
	return st
}

func init() {
	ps := &PropSpec{
		ID: "C15", Level: "exploration",
		Verdict: []string{"ov."},
		Rule: "storage-only world: 4-5 identifiers (two owners plus one temporary id) x 3 slab versions (registers in the library's own format), thousands of short random walks over {store, remove, retrieve, retrieve-if-loaded, cache-bypassing retrieve with/without caching, both commits with 1-4 workers and injected write faults, reads whose ledger access or element decoder fails (an error; nothing learnt about the slab), drop-deltas, drop-cache, batch-preload of subsets incl. the parallel path, storage re-creation, full sweeps}; after every step the overlay model (base/delta/cache per id) must agree on every returned slab (by register bytes), on all pending-change observers, on is-loaded (judged by meaning) and on the ledger contents; closure measure: distinct (base,delta,cache) states per id and distinct (state,step-kind) transitions reached, with the step at which the last new one appeared. Non-trivial = a walk with >= 1 commit and >= 1 eviction or re-creation; distinct by trace hash",
		ExpectedReach: []string{"op.s.commit", "op.s.preload", "op.s.recreate", "op.s.dropdeltas", "op.s.dropcache", "commit.partial", "op.s.bypass"},
	}
	walk := func(tr *Trace, r *Rng, agg *Stats) *RunResult {
		sw := &storageWorld{ledger: NewSimLedger(), stats: agg, states: map[string]bool{}, trans: map[string]bool{}, baseSeam: tr.Config.BaseSeam}
		sw.ledger.LogOn = false
		sw.m = &ovModel{ids: []RegID{{1, 1}, {1, 2}, {2, 1}, {0, 1}}, base: map[RegID]int{}, delta: map[RegID]int{}, cache: map[RegID]int{}}
		if tr.Config.Slab%2 == 1 {
			sw.m.ids = append(sw.m.ids, RegID{2, 7})
		}
		sw.newStorage()
		n := len(tr.Steps)
		if r != nil {
			n = tr.Config.MaxSteps
		}
		res := &RunResult{Seed: tr.Seed, Trace: tr}
		commits, evictions := 0, 0
		for i := 0; i < n; i++ {
			var st Step
			if r != nil {
				st = genStorageStep(r, len(sw.m.ids))
				tr.Steps = append(tr.Steps, st)
			} else {
				st = tr.Steps[i]
			}
			sw.stepNo = i
			if st.Op == "s.commit" {
				commits++
			}
			if st.Op == "s.dropcache" || st.Op == "s.recreate" || st.Op == "s.dropdeltas" {
				evictions++
			}
			var v *Violation
			func() {
				defer func() {
					if p := recover(); p != nil {
						v = sw.viol("ov.panic", "storage call panicked in step %s: %v", st, p)
					}
				}()
				v = sw.exec(&st)
			}()
			if v != nil {
				if ps.isVerdict(v.Class) {
					res.Violation = v
				} else {
					res.Cut = v
				}
				break
			}
		}
		res.Steps = len(tr.Steps)
		res.Events = len(tr.Steps) + int(sw.ledger.seq)
		res.Hash = traceHash(tr)
		res.NonTrivial = commits > 0 && evictions > 0
		// closure bookkeeping across the whole batch (per worker process)
		for s := range sw.states {
			ovStates[s] = true
		}
		for t := range sw.trans {
			ovTrans[t] = true
		}
		ovRuns++
		if len(ovStates)+len(ovTrans) > ovLastSize {
			ovLastSize = len(ovStates) + len(ovTrans)
			ovLastNewRun = ovRuns
		}
		res.Extra = map[string]any{"closure": map[string]any{
			"distinct_per_id_states_reached(this worker)": len(ovStates), "distinct_state_step_transitions(this worker)": len(ovTrans),
			"last_new_state_or_transition_at_run(this worker)": ovLastNewRun, "runs(this worker)": ovRuns,
			"measure": "state = (base version, pending change, cache entry) of one identifier; 4 x 5 x 5 = 100 combinations, of which those with cache != base outside a pending change are unreachable by construction",
		}}
		agg.Add("events.steps", len(tr.Steps))
		return res
	}
	ps.Run = func(ps *PropSpec, seed uint64, tier string, agg *Stats) *RunResult {
		r := NewRng(seed)
		cfg := Config{Profile: "storage", Slab: uint32(1024 + r.Sub("ids").Intn(2)), CollLimit: 255, BaseSeam: r.Sub("seam").Chance(0.4), MaxSteps: r.Sub("len").Range(5, 60)}
		tr := &Trace{Property: ps.ID, Seed: seed, Config: cfg}
		return walk(tr, r.Sub("walk"), agg)
	}
	ps.Replay = func(ps *PropSpec, tr *Trace, agg *Stats) *RunResult { return walk(tr, nil, agg) }
	Props[ps.ID] = ps
}

var (
	ovStates     = map[string]bool{}
	ovTrans      = map[string]bool{}
	ovRuns       int
	ovLastSize   int
	ovLastNewRun int
)

var _ = sort.Ints

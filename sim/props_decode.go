package sim

// C19: decoding untrusted bytes never panics or hangs (stored-byte faults on real registers).

import (
	"bytes"
	"encoding/binary"
	"encoding/hex"
	"encoding/json"
	"fmt"
	"runtime"
	"sort"
	"time"

	"github.com/onflow/atree"
)

// toV0 re-assembles a version-1 register (without inlined children) in the version-0 layout.
func toV0(p *PReg) []byte {
	if p.FlagIED || p.Kind == "storable" {
		return nil
	}
	has := false
	p.EachElem(func(e *PElem) {
		if e.Kind == "inl.arr" || e.Kind == "inl.map" || e.Kind == "inl.cmap" {
			has = true
		}
	})
	if has {
		return nil
	}
	h := []byte{0x00, p.Raw[1]}
	out := append([]byte{}, h...)
	body := p.Raw[2:]
	if p.FlagRoot {
		out = append(out, body[:p.ExtraLen]...)
		out = append(out, h...)
		body = body[p.ExtraLen:]
	}
	if p.IsMeta() {
		// [count:2] [slab id 16, count 4 | first key 8, size 4]*
		var cnt [2]byte
		binary.BigEndian.PutUint16(cnt[:], uint16(len(p.Children)))
		out = append(out, cnt[:]...)
		for _, ch := range p.Children {
			var id [16]byte
			binary.BigEndian.PutUint64(id[:], p.ChildOwner)
			binary.BigEndian.PutUint64(id[8:], ch.Index)
			out = append(out, id[:]...)
			if p.Kind == "arr.meta" {
				var b [8]byte
				binary.BigEndian.PutUint32(b[:], ch.Count)
				binary.BigEndian.PutUint32(b[4:], uint32(ch.Size))
				out = append(out, b[:]...)
			} else {
				var b [12]byte
				binary.BigEndian.PutUint64(b[:], ch.FirstKey)
				binary.BigEndian.PutUint32(b[8:], uint32(ch.Size))
				out = append(out, b[:]...)
			}
		}
		return out
	}
	if !p.FlagRoot {
		var next [16]byte
		if p.Next != nil {
			binary.BigEndian.PutUint64(next[:], p.Next.Owner)
			binary.BigEndian.PutUint64(next[8:], p.Next.Index)
		}
		out = append(out, next[:]...)
	}
	return append(out, p.Raw[len(p.Raw)-p.ContentLen:]...)
}

type decodeFinding struct {
	class string
	msg   string
}

const allocBase = 1 << 20
const allocPerByte = 256

// probeDecode feeds one byte string through every decode path.
func probeDecode(id RegID, input []byte, healthy *SimLedger, stats *Stats) (f *decodeFinding) {
	var where string
	defer func() {
		if r := recover(); r != nil {
			f = &decodeFinding{"decode.panic", fmt.Sprintf("%s panicked on a %d-byte register: %v", where, len(input), r)}
		}
	}()
	measure := func(name string, fn func()) *decodeFinding {
		where = name
		var m0, m1 runtime.MemStats
		runtime.ReadMemStats(&m0)
		t0 := time.Now()
		fn()
		d := time.Since(t0)
		runtime.ReadMemStats(&m1)
		alloc := m1.TotalAlloc - m0.TotalAlloc
		if alloc > uint64(allocBase+allocPerByte*len(input)) {
			return &decodeFinding{"decode.alloc", fmt.Sprintf("%s allocated %d bytes for a %d-byte register (bound %d)", name, alloc, len(input), allocBase+allocPerByte*len(input))}
		}
		if d > 60*time.Second {
			return &decodeFinding{"decode.slow", fmt.Sprintf("%s took %v for a %d-byte register", name, d, len(input))}
		}
		return nil
	}
	// raw head queries
	if ff := measure("head queries", func() {
		_, _ = atree.IsRootOfAnObject(input)
		_, _ = atree.HasPointers(input)
		_, _ = atree.HasSizeLimit(input)
	}); ff != nil {
		return ff
	}
	var slab atree.Slab
	var err error
	if ff := measure("DecodeSlab", func() {
		slab, err = libDecode(id, input)
	}); ff != nil {
		return ff
	}
	if err == nil && slab != nil {
		stats.Inc("decode.accepted")
		if ff := measure("accessors of the accepted slab", func() {
			_ = slab.ByteSize()
			_ = slab.SlabID()
			cs := slab.ChildStorables()
			for depth := 0; depth < 6 && len(cs) > 0; depth++ {
				var next []atree.Storable
				for _, c := range cs {
					if c == nil {
						continue
					}
					_ = c.ByteSize()
					next = append(next, c.ChildStorables()...)
				}
				cs = next
			}
		}); ff != nil {
			return ff
		}
	} else {
		stats.Inc("decode.rejected")
	}
	// through the storage
	l := healthy.Clone()
	l.Regs[id] = input
	st := atree.NewPersistentSlabStorage(atree.NewLedgerBaseStorage(l), encMode, decMode, MakeStorableDecoder(nil), MakeTypeInfoDecoder(nil))
	if ff := measure("PersistentSlabStorage.Retrieve", func() {
		_, _, _ = st.Retrieve(id.SlabID())
	}); ff != nil {
		return ff
	}
	ids := []atree.SlabID{id.SlabID()}
	for _, x := range l.SortedIDs() {
		if len(ids) >= 13 {
			break
		}
		if x != id {
			ids = append(ids, x.SlabID())
		}
	}
	for _, workers := range []int{1, 4} {
		st2 := atree.NewPersistentSlabStorage(atree.NewLedgerBaseStorage(l), encMode, decMode, MakeStorableDecoder(nil), MakeTypeInfoDecoder(nil))
		if ff := measure(fmt.Sprintf("BatchPreload(%d ids, %d workers)", len(ids), workers), func() {
			_ = st2.BatchPreload(ids, workers)
		}); ff != nil {
			return ff
		}
	}
	return nil
}

// mutateRegister applies one stored-byte fault.
func mutateRegister(r *Rng, raw []byte, other []byte, stats *Stats) []byte {
	b := append([]byte{}, raw...)
	kinds := []string{"disk.flip", "disk.set", "disk.tear", "disk.extend", "disk.splice", "disk.head-edit", "disk.flag", "disk.insert-delete"}
	k := kinds[r.Pick([]int{5, 3, 4, 2, 3, 6, 2, 2})]
	stats.Inc(k)
	switch k {
	case "disk.flip":
		for i := 0; i < 1+r.Intn(3) && len(b) > 0; i++ {
			p := r.Intn(len(b))
			b[p] ^= 1 << uint(r.Intn(8))
		}
	case "disk.set":
		if len(b) > 0 {
			b[r.Intn(len(b))] = []byte{0, 1, 0x17, 0x18, 0x7f, 0x80, 0x99, 0x9b, 0xbf, 0xd8, 0xff}[r.Intn(11)]
		}
	case "disk.tear":
		if len(b) > 0 {
			b = b[:r.Intn(len(b))]
		}
	case "disk.extend":
		n := 1 + r.Intn(24)
		for i := 0; i < n; i++ {
			b = append(b, byte(r.U64()))
		}
	case "disk.splice":
		if len(b) > 2 && len(other) > 2 {
			cut := 2 + r.Intn(len(b)-2)
			oc := r.Intn(len(other))
			b = append(b[:cut:cut], other[oc:]...)
		}
	case "disk.head-edit":
		// locate plausible CBOR heads (array/bytes/tag with 1- or 2-byte argument) and edit their argument
		var pos []int
		for i, c := range b {
			switch c {
			case 0x98, 0x99, 0x9a, 0x9b, 0x58, 0x59, 0x5a, 0x5b, 0x78, 0x79, 0x7a, 0x7b, 0xd8, 0xd9, 0x18, 0x19, 0x1a, 0x1b, 0x81, 0x82, 0x83:
				pos = append(pos, i)
			}
		}
		if len(pos) == 0 {
			if len(b) > 0 {
				b[r.Intn(len(b))] ^= 0xff
			}
			break
		}
		p := pos[r.Intn(len(pos))]
		switch r.Intn(4) {
		case 0: // widen the head: claim a 4- or 8-byte argument
			b[p] = b[p]&0xe0 | byte(26+r.Intn(2))
		case 1: // change the argument bytes to a boundary value
			vals := [][]byte{{0}, {0xff}, {0xff, 0xff}, {0x7f, 0xff}, {0x00, 0x01}, {0x80, 0x00}}
			v := vals[r.Intn(len(vals))]
			for i := range v {
				if p+1+i < len(b) {
					b[p+1+i] = v[i]
				}
			}
		case 2: // +-1 on the last argument byte
			if p+1 < len(b) {
				b[p+1] += byte(1 + 254*r.Intn(2))
			}
		default: // change major type / tag number
			if b[p] == 0xd8 && p+1 < len(b) {
				b[p+1] = byte(246 + r.Intn(10))
			} else {
				b[p] ^= byte(0x20 << uint(r.Intn(3)))
			}
		}
	case "disk.flag":
		if len(b) >= 2 {
			b[r.Intn(2)] ^= 1 << uint(r.Intn(8))
		}
	case "disk.insert-delete":
		if len(b) > 3 {
			p := 2 + r.Intn(len(b)-2)
			if r.Chance(0.5) {
				b = append(b[:p:p], b[p+1:]...)
			} else {
				b = append(b[:p:p], append([]byte{byte(r.U64())}, b[p:]...)...)
			}
		}
	}
	return b
}

// structEdit applies one format-aware edit to a healthy register: the places where a decoder indexes by a
// number it read from the bytes (counts, indexes into shared sections, lengths).
func structEdit(r *Rng, id RegID, raw []byte, stats *Stats) []byte {
	b := append([]byte{}, raw...)
	p, err := ParseRegister(id, raw)
	if err != nil {
		return b
	}
	small := func() byte { return []byte{0, 1, 2, 3, 4, 23, 24, 0x7f, 0xff}[r.Intn(9)] }
	choose := r.Intn(5)
	if !p.IsMeta() && bytes.Contains(b, []byte{0xd8, 0xf6}) && r.Chance(0.5) {
		choose = 0 // registers with type-info references are rare: edit those references often
	}
	if p.FlagIED && r.Chance(0.4) {
		if out := coordinatedInlineEdit(r, p, stats); out != nil {
			return out
		}
	}
	switch {
	case p.IsMeta():
		// child count vs number of child records
		rec := 14
		if p.Kind == "map.meta" {
			rec = 18
		}
		n := len(p.Children)
		base := len(b) - rec*n
		newCount := []int{0, 1, n - 1, n + 1, 0xffff, n, n | 0x8000, n + 0x4000, n + 0x2000, n + 0x1000}[r.Intn(10)]
		keep := []int{0, n, n - 1, newCount}[r.Intn(4)]
		if newCount > 0xfff && newCount != 0xffff {
			// counts that alias the true one when multiplied by the record size in 16-bit arithmetic
			keep = n
			stats.Inc("disk.struct.count-alias")
		}
		if keep < 0 {
			keep = 0
		}
		if keep > n {
			keep = n
		}
		if newCount < 0 {
			newCount = 0
		}
		out := append([]byte{}, b[:base]...)
		binary.BigEndian.PutUint16(out[base-2:], uint16(newCount))
		out = append(out, b[base:base+rec*keep]...)
		stats.Inc("disk.struct.child-count")
		return out
	case choose == 0:
		// type-info references (tag 246 + index) and extra-data indexes of inlined containers (tag 250-252, 0x83, 0x18 xx)
		var pos []int
		for i := 0; i+2 < len(b); i++ {
			if b[i] == 0xd8 && b[i+1] == 0xf6 {
				pos = append(pos, i+2)
			}
			if b[i] == 0xd8 && (b[i+1] == 0xfa || b[i+1] == 0xfb || b[i+1] == 0xfc) && i+4 < len(b) && b[i+2] == 0x83 && b[i+3] == 0x18 {
				pos = append(pos, i+4)
			}
		}
		if len(pos) > 0 {
			q := pos[r.Intn(len(pos))]
			switch r.Intn(3) {
			case 0:
				b[q]++
			case 1:
				b[q] += 2
			default:
				b[q] = small()
			}
			stats.Inc("disk.struct.shared-section-index")
			return b
		}
		fallthrough
	case choose == 1 && p.FlagIED:
		// counts of the two lists of the shared (inlined extra data) section
		off := 2 + p.ExtraLen
		if off+2 < len(b) {
			q := off + 1 + r.Intn(2)
			b[q] = b[q]&0xe0 | (small() & 0x1f)
			stats.Inc("disk.struct.shared-section-count")
		}
		return b
	default:
		// element count / digest length heads at the start of the content
		off := len(b) - p.ContentLen
		if p.Kind == "storable" || off < 2 || off+6 > len(b) {
			if len(b) > 2 {
				b[2+r.Intn(len(b)-2)] = small()
			}
			return b
		}
		if p.Kind == "arr.data" {
			// 0x99 hi lo
			binary.BigEndian.PutUint16(b[off+1:], uint16([]int{0, 1, len(p.Elems) + 1, len(p.Elems) - 1, 0xffff, len(p.Elems) | 0x8000}[r.Intn(6)]&0xffff))
			stats.Inc("disk.struct.element-count")
			return b
		}
		// map: 0x83 level 0x59 len(2) digests... 0x99 n(2)
		switch r.Intn(3) {
		case 0:
			b[off+1] = small() // level
		case 1:
			if b[off+2] == 0x59 {
				l := int(binary.BigEndian.Uint16(b[off+3:]))
				binary.BigEndian.PutUint16(b[off+3:], uint16([]int{0, l + 8, l - 8, l + 1, 0xffff}[r.Intn(5)]&0xffff))
			} else {
				b[off+2] = 0x59
			}
		default:
			if b[off+2] == 0x59 {
				l := int(binary.BigEndian.Uint16(b[off+3:]))
				q := off + 5 + l
				if q+3 <= len(b) {
					n := int(binary.BigEndian.Uint16(b[q+1:]))
					binary.BigEndian.PutUint16(b[q+1:], uint16([]int{0, n + 1, n - 1, 0xffff}[r.Intn(4)]&0xffff))
				}
			}
		}
		stats.Inc("disk.struct.map-elements-head")
		return b
	}
}

// coordinatedInlineEdit changes fields that a decoder must cross-check against each other: the element count
// recorded in a shared (inlined extra data) entry of a map or compact map, and the number of values the inlined
// containers referring to that entry carry - one side only, or both sides consistently with each other but not
// with the entry's key list.
func coordinatedInlineEdit(r *Rng, p *PReg, stats *Stats) []byte {
	var cand []int
	for i, x := range p.IED {
		if x.Kind == "cmap" || x.Kind == "map" {
			cand = append(cand, i)
		}
	}
	if len(cand) == 0 {
		return nil
	}
	xi := cand[r.Intn(len(cand))]
	x := p.IED[xi]
	var users []*PElem
	p.EachElem(func(e *PElem) {
		if e.Kind == "inl.cmap" && e.XI == xi {
			users = append(users, e)
		}
	})
	n := len(x.Keys)
	if x.Kind == "map" {
		n = int(x.Count)
	}
	nc := []int{n + 1, n + 2, n - 1, 0, 23, 24, n + 1}[r.Intn(7)]
	if nc < 0 {
		nc = 0
	}
	type edit struct {
		pos, del int
		ins      []byte
	}
	var edits []edit
	uintHead := func(v int) []byte {
		switch {
		case v < 24:
			return []byte{byte(v)}
		case v < 256:
			return []byte{0x18, byte(v)}
		}
		return []byte{0x19, byte(v >> 8), byte(v)}
	}
	headLen := func(pos int) int {
		switch ai := p.Raw[pos] & 0x1f; {
		case ai < 24:
			return 1
		case ai == 24:
			return 2
		case ai == 25:
			return 3
		case ai == 26:
			return 5
		}
		return 9
	}
	mode := r.Intn(4) // 0: entry only, 1: users only, 2,3: both
	if mode != 1 || len(users) == 0 {
		edits = append(edits, edit{x.CountPos, headLen(x.CountPos), uintHead(nc)})
	}
	if mode != 0 {
		for ui, u := range users {
			if mode == 3 && ui > 0 {
				break // only the first user follows the entry
			}
			have := len(u.Compact)
			ah := uintHead(nc)
			ah[0] |= 0x80 // array head, shortest form (as the encoder writes it)
			edits = append(edits, edit{u.CntPos, headLen(u.CntPos), ah})
			end := u.Start + u.Size
			switch {
			case nc > have:
				one := []byte{0xd8, byte(tagU64), 0x01}
				if have > 0 {
					l := u.Compact[have-1]
					one = p.Raw[l.Start : l.Start+l.Size]
				}
				var ins []byte
				for k := have; k < nc; k++ {
					ins = append(ins, one...)
				}
				edits = append(edits, edit{end, 0, ins})
			case nc < have:
				from := u.Compact[nc].Start
				edits = append(edits, edit{from, end - from, nil})
			}
		}
	}
	sort.SliceStable(edits, func(i, j int) bool { return edits[i].pos > edits[j].pos })
	b := append([]byte{}, p.Raw...)
	for _, e := range edits {
		if e.pos < 0 || e.pos+e.del > len(b) {
			return nil
		}
		b = append(b[:e.pos:e.pos], append(append([]byte{}, e.ins...), b[e.pos+e.del:]...)...)
	}
	stats.Inc("disk.struct.coordinated-count")
	return b
}

// amplifyEdit builds a large register out of a small healthy one, the way a decoder could be made to allocate
// out of proportion to its input: the shared entry of a compact map gets a long digest list (and, mostly, an empty
// key list), the inlined maps that refer to it are stripped of their values, and the first of them is repeated
// many times in the parent's element list (the element count follows).  Every instance is a few bytes of input;
// what a decoder allocates per instance must stay in proportion.
func amplifyEdit(r *Rng, p *PReg, stats *Stats) []byte {
	if p.Kind != "arr.data" || !p.FlagIED || p.ContentLen < 3 {
		return nil
	}
	var cand []int
	for i, x := range p.IED {
		if x.Kind == "cmap" && x.DigEnd > x.DigPos && x.KeysEnd > x.KeysPos {
			cand = append(cand, i)
		}
	}
	if len(cand) == 0 {
		return nil
	}
	xi := cand[r.Intn(len(cand))]
	x := p.IED[xi]
	var users []*PElem
	for i := range p.Elems {
		if e := &p.Elems[i]; e.Kind == "inl.cmap" && e.XI == xi {
			users = append(users, e)
		}
	}
	if len(users) == 0 {
		return nil
	}
	type edit struct {
		pos, del int
		ins      []byte
	}
	var edits []edit
	nd := []int{64, 512, 2048, 8000}[r.Intn(4)]
	dig := make([]byte, 3+8*nd)
	dig[0] = 0x59
	binary.BigEndian.PutUint16(dig[1:], uint16(8*nd))
	for i := 0; i < nd; i++ {
		binary.BigEndian.PutUint64(dig[3+8*i:], uint64(i+1)*0x9e3779b97f4a7c15)
	}
	edits = append(edits, edit{x.DigPos, x.DigEnd - x.DigPos, dig})
	if r.Chance(0.7) {
		edits = append(edits, edit{x.KeysPos, x.KeysEnd - x.KeysPos, []byte{0x80}})
	}
	for _, u := range users {
		end := u.Start + u.Size
		if u.CntPos <= u.Start || u.CntPos >= end {
			return nil
		}
		edits = append(edits, edit{u.CntPos, end - u.CntPos, []byte{0x80}})
	}
	u0 := users[0]
	inst := append(append([]byte{}, p.Raw[u0.Start:u0.CntPos]...), 0x80)
	rep := []int{50, 500, 3000}[r.Intn(3)]
	off := len(p.Raw) - p.ContentLen
	if p.Raw[off] != 0x99 {
		return nil
	}
	n := int(binary.BigEndian.Uint16(p.Raw[off+1:]))
	if n+rep > 0xffff {
		rep = 0xffff - n
	}
	var tail []byte
	for i := 0; i < rep; i++ {
		tail = append(tail, inst...)
	}
	edits = append(edits, edit{len(p.Raw), 0, tail})
	cnt := []byte{0x99, 0, 0}
	binary.BigEndian.PutUint16(cnt[1:], uint16(n+rep))
	edits = append(edits, edit{off, 3, cnt})
	sort.SliceStable(edits, func(i, j int) bool { return edits[i].pos > edits[j].pos })
	b := append([]byte{}, p.Raw...)
	for _, e := range edits {
		if e.pos < 0 || e.pos+e.del > len(b) {
			return nil
		}
		b = append(b[:e.pos:e.pos], append(append([]byte{}, e.ins...), b[e.pos+e.del:]...)...)
	}
	stats.Inc("disk.struct.amplify")
	return b
}

// tryAmplify applies amplifyEdit to a third of the registers it is applicable to (they are rare).
func tryAmplify(r *Rng, id RegID, raw []byte, stats *Stats) []byte {
	if len(raw) < 2 || raw[0]&0x01 == 0 || raw[1]&0x1f != 0x00 {
		return nil // no shared section, or not an array data slab
	}
	p, err := ParseRegister(id, raw)
	if err != nil || !r.Chance(0.3) {
		return nil
	}
	return amplifyEdit(r, p, stats)
}

// wideUintEdit replaces one unsigned integer that a decoder later uses as an index, a count or a capacity by a
// wide (4- or 8-byte) CBOR integer with a boundary value: the top bit set (negative after a conversion to int),
// all ones, just above 2^32 / 2^31 / 2^16, or a plausible-looking but enormous count.  Candidates: indexes into
// the shared extra-data section (type-info references, extra-data indexes of inlined containers), the element
// count and the seed recorded in a root map's extra data and in shared map entries, and - as noise - any byte
// that looks like a small unsigned integer head.
func wideUintEdit(r *Rng, id RegID, raw []byte, stats *Stats) []byte {
	b := append([]byte{}, raw...)
	headLen := func(pos int) int {
		if pos >= len(b) || b[pos]>>5 != 0 {
			return 0
		}
		switch ai := b[pos] & 0x1f; {
		case ai < 24:
			return 1
		case ai == 24:
			return 2
		case ai == 25:
			return 3
		case ai == 26:
			return 5
		case ai == 27:
			return 9
		}
		return 0
	}
	var pos []int
	for i := 0; i+2 < len(b); i++ {
		if b[i] == 0xd8 && b[i+1] == 0xf6 {
			pos = append(pos, i+2) // type-info reference index
		}
		if b[i] == 0xd8 && (b[i+1] == 0xfa || b[i+1] == 0xfb || b[i+1] == 0xfc) && i+3 < len(b) && b[i+2] == 0x83 {
			pos = append(pos, i+3) // extra-data index of an inlined container
		}
	}
	if p, err := ParseRegister(id, raw); err == nil {
		for _, x := range p.IED {
			if x.Kind == "cmap" || x.Kind == "map" {
				pos = append(pos, x.CountPos)
				// the seed follows the count
				if hl := headLen(x.CountPos); hl > 0 {
					pos = append(pos, x.CountPos+hl)
				}
			}
		}
		if p.ExtraLen > 0 && (p.Kind == "map.data" || p.Kind == "map.meta") {
			// root map extra data: 0x83 typeinfo count seed - locate seed and count from the end of the section
			end := 2 + p.ExtraLen
			for _, sw := range []int{9, 5, 3, 2, 1} {
				sp := end - sw
				if sp > 2 && headLen(sp) == sw {
					pos = append(pos, sp)
					for _, cw := range []int{1, 2, 3, 5, 9} {
						if cp := sp - cw; cp > 2 && headLen(cp) == cw {
							pos = append(pos, cp)
							break
						}
					}
					break
				}
			}
		}
	}
	if r.Chance(0.25) {
		// a slab reference (tag 255 + 16-byte id; also the payload of an external collision group, tag 254) is
		// replaced by a different well-formed storable: a small tagged integer, a short string, null
		var refs []int
		for i := 0; i+19 <= len(b); i++ {
			if b[i] == 0xd8 && b[i+1] == 0xff && b[i+2] == 0x50 {
				refs = append(refs, i)
			}
		}
		if len(refs) > 0 {
			q := refs[r.Intn(len(refs))]
			repl := [][]byte{{0xd8, tagU64, 0x05}, {0x61, 'x'}, {0xf6}, {0x00}, {0xd8, tagSome, 0xd8, tagU64, 0x01}, {0x80}}[r.Intn(6)]
			out := append(append(append([]byte{}, b[:q]...), repl...), b[q+19:]...)
			stats.Inc("disk.struct.reference-replaced")
			return out
		}
	}
	if len(pos) == 0 || r.Chance(0.15) {
		// noise: any byte that reads as an unsigned integer head
		for try := 0; try < 8 && len(b) > 2; try++ {
			q := 2 + r.Intn(len(b)-2)
			if headLen(q) > 0 && q+headLen(q) <= len(b) {
				pos = append(pos, q)
				break
			}
		}
	}
	if len(pos) == 0 {
		return b
	}
	q := pos[r.Intn(len(pos))]
	hl := headLen(q)
	if hl == 0 || q+hl > len(b) {
		return b
	}
	small := uint64(r.Intn(4))
	vals := []uint64{1 << 63, 1<<63 | small, 1<<64 - 1, 1<<64 - 2, 1 << 62, 1 << 59, 1 << 43, 1 << 32, 1<<32 | small, 1<<32 - 1, 1 << 31, 1<<31 | small, 1 << 22, 1 << 16, 1<<16 | small, 256 + small, 255}
	v := vals[r.Intn(len(vals))]
	var enc []byte
	if v < 1<<32 && r.Chance(0.5) {
		enc = []byte{0x1a, byte(v >> 24), byte(v >> 16), byte(v >> 8), byte(v)}
	} else {
		enc = []byte{0x1b, byte(v >> 56), byte(v >> 48), byte(v >> 40), byte(v >> 32), byte(v >> 24), byte(v >> 16), byte(v >> 8), byte(v)}
	}
	out := append(append(append([]byte{}, b[:q]...), enc...), b[q+hl:]...)
	stats.Inc("disk.struct.wide-uint")
	return out
}

func init() {
	ps := &PropSpec{
		ID: "C19", Level: "exploration",
		Verdict: []string{"decode."},
		Rule: "disk corruption as a fault kind: the registers of a freshly generated healthy ledger (every slab kind: array/map data and index slabs, external collision groups, large-value slabs, slabs with inlined arrays/maps/compact maps and shared type infos; version 1 from the library plus the same slabs re-assembled in the version-0 layout) receive seeded stored-byte faults - bit flips, byte sets, truncation (torn write), extension, splice of another register's tail (misdirected write), edits of CBOR length/count heads and tag numbers, format-aware edits located with the independent parser (child count vs child records of index slabs including counts that alias the true one in 16-bit arithmetic, element counts, digest lengths, indexes into the shared type-info / extra-data section, and coordinated edits of the count recorded in a shared map / compact-map entry together with the number of values of the inlined containers that refer to it; wide (4- and 8-byte) integers with boundary values in index, count and capacity positions; amplification: long digest list, empty key list, one inlined compact map repeated up to thousands of times), head-flag flips, byte insertion/deletion - and plain random strings of length 0..64; each is read back through DecodeSlab, PersistentSlabStorage.Retrieve, BatchPreload (1 and 4 workers, parallel path) and the raw head queries; oracle: no panic, returns (per-run watchdog in the orchestrator), heap allocated during the call <= 1 MiB + 256 x input length (harness-chosen reading of 'out of proportion'), accessors of accepted slabs panic-free. Non-trivial = a run that probed >= 50 mutated registers of >= 3 slab kinds with both accepted and rejected outcomes; distinct by corpus hash",
		ExpectedReach: []string{"decode.accepted", "decode.rejected", "disk.flip", "disk.tear", "disk.splice", "disk.head-edit", "disk.random", "disk.struct.child-count", "disk.struct.shared-section-index", "disk.struct.element-count", "disk.struct.map-elements-head", "disk.struct.coordinated-count", "disk.struct.count-alias", "corpus.v0", "corpus.kind.arr.meta", "corpus.kind.map.coll", "corpus.kind.storable", "corpus.kind.map.meta"},
		Assumptions: []string{"an accepted slab is not required to be meaningful", "heap proportionality bound chosen by the harness: 1 MiB + 256 x len(input), measured with runtime.MemStats.TotalAlloc around each call"},
	}
	type aux struct {
		ID    RegID  `json:"id"`
		Input string `json:"input_hex"`
	}
	ps.Run = func(ps *PropSpec, seed uint64, tier string, agg *Stats) *RunResult {
		r := NewRng(seed)
		cfg := baseConfig(r.Sub("config"), "decode", tier)
		cfg.MaxSteps = r.Sub("len").Range(10, 60)
		if cfg.Slab > 4096 {
			cfg.Slab = 1024
		}
		res := &RunResult{Seed: seed}
		tr := &Trace{Property: ps.ID, Seed: seed, Config: cfg}
		res.Trace = tr
		// build a healthy ledger
		w := NewWorld(cfg, NewStats())
		prof := sizeAdversarialProfile(r.Sub("profile"), cfg)
		if r.Sub("records").Chance(0.4) {
			// nesting-centred histories with many records of one composite type: registers with shared
			// (inlined extra data) sections, compact maps and their users
			prof = nestedProfile(r.Sub("profile-nested"), cfg)
			prof.CompositeProb = 0.8
			prof.RootMapShare = 0.2
		}
		prof.Owners = []uint64{1, 2}
		prof.W["crash"], prof.W["dropcache"] = 0, 0
		gen := NewGen(r.Sub("workload"), w, prof)
		for i := 0; i < cfg.MaxSteps; i++ {
			st := gen.Next()
			tr.Steps = append(tr.Steps, st)
			w.StepNo = i
			if v := w.execGuarded(&st); v != nil {
				res.Cut = v
				res.Hash = traceHash(tr)
				return res
			}
		}
		if v := w.execGuarded(&Step{Op: "commit", Flavour: "fc", Workers: 1}); v != nil {
			res.Cut = v
			res.Hash = traceHash(tr)
			return res
		}
		healthy := w.Ledger.Clone()
		type item struct {
			id  RegID
			raw []byte
		}
		var corpus []item
		kinds := map[string]bool{}
		for _, id := range healthy.SortedIDs() {
			raw := healthy.Regs[id]
			corpus = append(corpus, item{id, raw})
			if p, err := ParseRegister(id, raw); err == nil {
				kinds[p.Kind] = true
				agg.Inc("corpus.kind." + p.Kind)
				if v0 := toV0(p); v0 != nil {
					corpus = append(corpus, item{id, v0})
					agg.Inc("corpus.v0")
				}
			}
		}
		res.Hash = traceHash(tr)
		res.Steps = len(tr.Steps)
		if len(corpus) == 0 {
			return res
		}
		mr := r.Sub("mutations")
		n := 60
		if tier == "thorough" {
			n = 200
		}
		acc0, rej0 := agg.C["decode.accepted"], agg.C["decode.rejected"]
		report := func(id RegID, input []byte, f *decodeFinding) *RunResult {
			a, _ := json.Marshal(aux{id, hex.EncodeToString(input)})
			tr.Steps = nil
			tr.Aux = a
			res.Violation = &Violation{Class: f.class, Msg: f.msg}
			return res
		}
		// the unmodified registers (v1 and v0) must decode without incident as well
		for _, it := range corpus {
			if f := probeDecode(it.id, it.raw, healthy, agg); f != nil {
				return report(it.id, it.raw, f)
			}
		}
		for k := 0; k < n; k++ {
			it := corpus[mr.Intn(len(corpus))]
			var input []byte
			if mr.Chance(0.07) {
				input = make([]byte, mr.Intn(65))
				for i := range input {
					input[i] = byte(mr.U64())
				}
				if len(input) >= 2 && mr.Chance(0.7) {
					// plausible head so that the body decoders are reached
					input[0] = []byte{0x10, 0x11, 0x12, 0x13, 0x00}[mr.Intn(5)]
					input[1] = []byte{0x00, 0x01, 0x08, 0x09, 0x0b, 0x1f, 0x80, 0x81, 0x88, 0x89, 0x3f}[mr.Intn(11)]
				}
				agg.Inc("disk.random")
			} else if amp := tryAmplify(mr, it.id, it.raw, agg); amp != nil {
				input = amp
			} else if mr.Chance(0.12) {
				input = wideUintEdit(mr, it.id, it.raw, agg)
			} else if mr.Chance(0.3) {
				input = structEdit(mr, it.id, it.raw, agg)
				if mr.Chance(0.2) {
					input = mutateRegister(mr, input, it.raw, agg)
				}
			} else {
				input = mutateRegister(mr, it.raw, corpus[mr.Intn(len(corpus))].raw, agg)
				if mr.Chance(0.15) {
					input = mutateRegister(mr, input, it.raw, agg)
				}
			}
			if len(it.raw) <= 64 && tier == "thorough" && k < len(it.raw) {
				// torn write at every offset of a small register
				input = it.raw[:k]
				agg.Inc("disk.tear-enumerated")
			}
			writeCrumbInput(it.id, input)
			if f := probeDecode(it.id, input, healthy, agg); f != nil {
				return report(it.id, input, f)
			}
			res.Events++
		}
		res.NonTrivial = len(kinds) >= 3 && agg.C["decode.accepted"] > acc0 && agg.C["decode.rejected"] > rej0
		agg.Add("events.steps", n)
		res.Sample = fmt.Sprintf("corpus of %d registers (kinds %v) from a %d-step history at slab %d; %d stored-byte faults probed", len(corpus), keysOf(kinds), len(tr.Steps), cfg.Slab, n)
		return res
	}
	ps.Replay = func(ps *PropSpec, tr *Trace, agg *Stats) *RunResult {
		var a aux
		_ = json.Unmarshal(tr.Aux, &a)
		input, _ := hex.DecodeString(a.Input)
		atree.VerifSetThreshold(tr.Config.Slab)
		res := &RunResult{Seed: tr.Seed, Trace: tr}
		healthy := NewSimLedger()
		if f := probeDecode(a.ID, input, healthy, agg); f != nil {
			res.Violation = &Violation{Class: f.class, Msg: f.msg}
		}
		return res
	}
	Props[ps.ID] = ps
}

func keysOf(m map[string]bool) []string {
	var out []string
	for k := range m {
		out = append(out, k)
	}
	sortStrings(out)
	return out
}

// crumbInputPath, when set by the worker, receives the input about to be decoded (so that a process
// death - unrecoverable panic in a worker goroutine, runaway allocation, endless loop - is attributable).
var crumbInputPath string

func writeCrumbInput(id RegID, input []byte) {
	if crumbInputPath == "" {
		return
	}
	_ = writeFileAtomic(crumbInputPath, []byte(fmt.Sprintf(`{"id":{"Owner":%d,"Index":%d},"input_hex":"%s"}`, id.Owner, id.Index, hex.EncodeToString(input))))
}

package sim

// C16: parallel commit/preload and concurrent storages are race-free and sequential-equal.
//  (a) controlled worker schedules (seeded scheduler over testing/synctest)
//  (b) independent clients interleaved at every callback/ledger seam
//  (c) the same workloads free-running under the race detector (VERIF_FREE=1, -race build)

import (
	"encoding/json"
	"fmt"
	"os"
	"runtime"
	"sort"
	"sync"
	"time"

	"github.com/onflow/atree"
)

var freeRunning = os.Getenv("VERIF_FREE") == "1"

func init() {
	if !freeRunning {
		scheduledCommit = schedCommit
	}

	// preload: BatchPreload a PRNG-chosen subset of the durable registers
	extraOps["preload"] = func(w *World, st *Step) *Violation {
		return w.execPreload(st, nil)
	}
	extraGens["preload"] = func(g *Gen) (Step, bool) {
		return Step{Op: "preload", N: g.R.Intn(101), Workers: []int{1, 2, 4, 16}[g.R.Intn(4)], Pos: g.R.U64() % (1 << 32), Keep: g.R.Chance(0.5)}, true
	}
}

func (w *World) preloadIDs(st *Step) []atree.SlabID {
	r := NewRng(st.Pos).Sub("preload")
	var ids []atree.SlabID
	for _, id := range w.Ledger.SortedIDs() {
		if r.Intn(100) < st.N {
			ids = append(ids, id.SlabID())
		}
	}
	if st.Keep {
		// some ids that do not exist, at PRNG-chosen positions of the list (not only at its end: a preload
		// that loses track of positions after a missing register must not mix up the ones that follow)
		for i := 0; i < 3; i++ {
			at := r.Intn(len(ids) + 1)
			ids = append(ids, atree.SlabID{})
			copy(ids[at+1:], ids[at:])
			ids[at] = RegID{1, uint64(1<<40 + i)}.SlabID()
		}
	}
	return ids
}

func (w *World) execPreload(st *Step, s *Sched) *Violation {
	ids := w.preloadIDs(st)
	if st.Keep && len(ids) > 0 {
		w.Storage.DropCache()
		w.Handles = map[int]any{}
	}
	workers := st.Workers
	if workers <= 0 {
		workers = 1
	}
	// BatchPreload puts freshly decoded slab objects into the cache even for ids that are cached already:
	// like an eviction it re-materialises slabs, so no handle survives it (DESIGN 3.3)
	w.Handles = map[int]any{}
	var err error
	if s != nil {
		s.Install()
		live := s.RunBubble(TestingT, []func(){func() { err = w.Storage.BatchPreload(ids, workers) }})
		s.Uninstall()
		w.Stats.Add("sched.worker-decisions", s.Decisions)
		w.Stats.Add("sched.elem-yields", s.ElemYields)
		if live != nil {
			return w.viol("live.deadlock", "BatchPreload(%d ids, %d workers) under schedule policy %s: %v", len(ids), workers, s.policy, live)
		}
	} else {
		err = w.Storage.BatchPreload(ids, workers)
	}
	if err != nil {
		return w.viol("preload.error", "BatchPreload(%d ids, %d workers) failed without an injected fault: %v", len(ids), workers, err)
	}
	// every existing id must now be loaded and equal its sequential decode
	pendingSet := map[atree.SlabID]bool{}
	{
		stored, removed, _, _ := atree.VerifLayerIDs(w.Storage)
		for _, x := range append(stored, removed...) {
			pendingSet[x] = true
		}
	}
	for _, id := range ids {
		raw, ok := w.Ledger.Regs[RegIDOf(id)]
		if !ok || pendingSet[id] {
			continue // nothing on the ledger, or a newer pending change shadows the register
		}
		slab := w.Storage.RetrieveIfLoaded(id)
		if slab == nil {
			return w.viol("preload.missing", "slab %s was preloaded but is not loaded afterwards", id)
		}
		b, err := atree.EncodeSlab(slab, encMode)
		if err != nil || string(b) != string(raw) {
			return w.viol("preload.content", "slab %s loaded by BatchPreload does not re-encode to its register", id)
		}
	}
	w.Stats.Inc("preload.done")
	if len(ids) >= 11 && workers > 1 {
		w.Stats.Inc("preload.parallel-path")
	}
	w.result("preload %d", len(ids))
	return nil
}

// schedCommit runs one commit step under the controlled scheduler.
func schedCommit(w *World, st *Step, variant ExecVariant, r *Rng) *Violation {
	s := NewSched(variant.Sched, r.Sub(fmt.Sprintf("sched%d", w.StepNo)))
	s.ElemStride = variant.Elem
	s.Install()
	w.Ledger.Yield = func(site string, id RegID) { s.Yield("io:" + site + ":" + id.String()) }
	var v *Violation
	live := s.RunBubble(TestingT, []func(){func() { v = w.execGuarded(st) }})
	s.Uninstall()
	w.Ledger.Yield = nil
	w.Stats.Add("sched.worker-decisions", s.Decisions)
	w.Stats.Add("sched.elem-yields", s.ElemYields)
	w.Events += s.Decisions
	if live != nil {
		return w.viol("live.deadlock", "commit (%s, %d workers) under schedule policy %s: %v", st.Flavour, st.Workers, s.policy, live)
	}
	return v
}

// ---- (a) worker schedules with injected encode/decode failures ----

type concVariant struct {
	Exec       ExecVariant `json:"exec"`
	FailEncode int         `json:"fail_encode,omitempty"` // the k-th Encode call of every commit fails once
	FailDecode int         `json:"fail_decode,omitempty"` // the k-th decode call of every preload fails once
	FailRead   int         `json:"fail_read,omitempty"`   // the k-th ledger read of every preload fails once
	Persist    bool        `json:"persist,omitempty"`     // the encoder / decoder keeps failing from the k-th call on (several workers fail in the same call)
}

// execConc executes tr under cv; commits are scheduled, optionally with one failing encode,
// after which the commit is retried without fault.  Returns the commit points.
func execConc(tr *Trace, cv concVariant, stats *Stats) ([]commitPoint, *Violation) {
	w := NewWorld(tr.Config, stats)
	r := NewRng(cv.Exec.Seed).Sub("conc")
	var points []commitPoint
	for i := range tr.Steps {
		st := tr.Steps[i]
		w.StepNo = i
		isCommit := st.Op == "commit" || st.Op == "reopen"
		logStart := len(w.Ledger.Log)
		if isCommit && cv.Exec.Workers > 0 {
			st.Workers = cv.Exec.Workers
		}
		var v *Violation
		switch {
		case isCommit && cv.FailEncode > 0:
			w.failedAttemptState = ""
			v = w.commitWithEncodeFailure(&st, cv, r)
			if v == nil && w.failedAttemptState != "" {
				points = append(points, commitPoint{Step: i, Flavour: "fc-failed", State: w.failedAttemptState})
			}
		case isCommit && cv.Exec.Sched != "" && !freeRunning:
			v = schedCommit(w, &st, cv.Exec, r)
		case st.Op == "preload" && (cv.FailDecode > 0 || cv.FailRead > 0):
			v = w.preloadWithDecodeFailure(&st, cv, r)
		case st.Op == "preload" && cv.Exec.Sched != "" && !freeRunning:
			st.Workers = cv.Exec.Workers
			ps := NewSched(cv.Exec.Sched, r.Sub(fmt.Sprintf("pl%d", i)))
			ps.ElemStride = cv.Exec.Elem
			v = w.execPreload(&st, ps)
		default:
			if st.Op == "preload" && cv.Exec.Workers > 0 {
				st.Workers = cv.Exec.Workers
			}
			v = w.execGuarded(&st)
		}
		if v != nil {
			return points, v
		}
		if isCommit {
			cp := commitPoint{Step: i, Flavour: flavourName(st.Flavour), State: ledgerDigest(w.Ledger)}
			for _, e := range w.Ledger.Log[logStart:] {
				if e.Kind == IOSet || e.Kind == IODelete {
					cp.Writes = append(cp.Writes, fmt.Sprintf("%s:%s:%x", e.Kind, e.ID, e.Hash))
				}
			}
			points = append(points, cp)
			if st.Op == "commit" {
				// the cache a parallel commit leaves behind is the one a commit on one goroutine leaves behind: a slab
				// whose deletion has just been committed is gone for every reader of this storage
				for _, e := range w.Ledger.Log[logStart:] {
					if e.Kind != IODelete {
						continue
					}
					if _, still := w.Ledger.Regs[e.ID]; still {
						continue // written again later in the same commit sequence (retry)
					}
					if slab, found, err := w.Storage.Retrieve(e.ID.SlabID()); err == nil && (found || slab != nil) {
						return points, w.viol("conc.cache", "after the commit at step %d (%s, %d workers) the slab %s, whose deletion was committed, is still served by the storage", i, flavourName(st.Flavour), st.Workers, e.ID)
					}
				}
			}
		}
	}
	if v := w.DeepLive(cmpOpts{}); v != nil {
		return points, v
	}
	return points, nil
}

func (w *World) commitWithEncodeFailure(st *Step, cv concVariant, r *Rng) *Violation {
	w.Ctl.Reset()
	w.Ctl.FailAt["encode"] = cv.FailEncode
	w.Ctl.Persist = cv.Persist
	fired0 := w.Ctl.Fired["encode"]
	var err error
	run := func() {
		w.Ledger.BeginPhase("commit-failing", true)
		err = w.commitOnce(st.Flavour, st.Workers)
		w.Ledger.BeginPhase("op", false)
	}
	g0 := runtime.NumGoroutine()
	if cv.Exec.Sched != "" && !freeRunning {
		s := NewSched(cv.Exec.Sched, r.Sub(fmt.Sprintf("fe%d", w.StepNo)))
		s.ElemStride = cv.Exec.Elem
		s.Install()
		live := s.RunBubble(TestingT, []func(){run})
		s.Uninstall()
		w.Stats.Add("sched.worker-decisions", s.Decisions)
		if live != nil {
			return w.viol("live.deadlock", "commit (%s, %d workers) with a failing encoder under policy %s: %v", st.Flavour, st.Workers, s.policy, live)
		}
	} else {
		run()
		for i := 0; i < 3000 && runtime.NumGoroutine() > g0; i++ {
			runtime.Gosched()
			if i > 50 {
				time.Sleep(time.Millisecond)
			}
		}
	}
	fired := w.Ctl.Fired["encode"] - fired0
	w.Ctl.Reset()
	if fired > 0 {
		w.Stats.Inc("fault.callback.encode")
		// which element meets the k-th encode call depends on the schedule, and the library wraps encoder
		// errors differently per path, so only "an error that wraps the injected one" is demanded
		// (some encoder paths wrap the cause in an error type without Unwrap, so not even errors.Is is demanded)
		if err == nil {
			return w.viol("conc.error", "commit (%s, %d workers) whose encoder failed once returned no error", st.Flavour, st.Workers)
		}
		w.Stats.Inc("conc.done-path")
		if flavourName(st.Flavour) == "fc" {
			// what the rejected deterministic commit left on the ledger is compared with the 1-worker execution
			w.failedAttemptState = ledgerDigest(w.Ledger)
		}
		// the view is unchanged: everything still reads back as the model says
		if v := w.DeepLive(cmpOpts{}); v != nil {
			return w.viol("conc.view-after-failure", "after the failed parallel commit the storage no longer matches the model: [%s] %s", v.Class, v.Msg)
		}
	} else if err != nil {
		return w.viol("conc.error", "commit failed without the injected fault firing: %v", err)
	}
	// retry without fault (sequentially): must succeed
	return w.execGuarded(st)
}

func (w *World) preloadWithDecodeFailure(st *Step, cv concVariant, r *Rng) *Violation {
	ids := w.preloadIDs(st)
	w.Storage.DropCache()
	w.Handles = map[int]any{}
	// a storage whose decoder can be armed: the world's decoders use w.Ctl
	w.Ctl.Reset()
	if cv.FailDecode > 0 {
		w.Ctl.FailAt["decode"] = cv.FailDecode
		w.Ctl.Persist = cv.Persist
	}
	if cv.FailRead > 0 {
		w.Ledger.SetPlan(&FaultPlan{FailReadAt: map[int]bool{cv.FailRead: true}})
		defer w.Ledger.SetPlan(nil)
	}
	fired0 := w.Ctl.Fired["decode"] + w.Ledger.FaultsFired["ledger.read-error"]
	workers := cv.Exec.Workers
	if workers <= 0 {
		workers = st.Workers
	}
	if workers <= 0 {
		workers = 1
	}
	var err error
	run := func() { err = w.Storage.BatchPreload(ids, workers) }
	if cv.Exec.Sched != "" && !freeRunning {
		s := NewSched(cv.Exec.Sched, r.Sub(fmt.Sprintf("fd%d", w.StepNo)))
		s.ElemStride = cv.Exec.Elem
		s.Install()
		live := s.RunBubble(TestingT, []func(){run})
		s.Uninstall()
		w.Stats.Add("sched.worker-decisions", s.Decisions)
		if live != nil {
			return w.viol("live.deadlock", "BatchPreload with a failing decoder or ledger read (%+v) under policy %s: %v", cv, s.policy, live)
		}
	} else {
		run()
	}
	fired := w.Ctl.Fired["decode"] + w.Ledger.FaultsFired["ledger.read-error"] - fired0
	w.Ctl.Reset()
	w.Ledger.SetPlan(nil)
	if fired > 0 {
		if cv.FailRead > 0 {
			w.Stats.Inc("fault.ledger.read-error-in-preload")
		} else {
			w.Stats.Inc("fault.callback.decode")
		}
		if err == nil {
			return w.viol("conc.error", "BatchPreload whose decoder failed once returned no error")
		}
		if cv.FailDecode > 0 && len(ids) >= 11 {
			// "the same ... errors as doing the work on one goroutine": the same kind of failure (the element decoder's
			// first call fails) on the serial path of BatchPreload (fewer than 11 ids, no worker goroutines) must be
			// reported in the same category as on the worker path
			var errPar, errSer error
			for _, serial := range []bool{false, true} {
				st2 := w.newStorage(w.Ledger, w.Ctl)
				w.Ctl.Reset()
				w.Ctl.FailAt["decode"] = 1
				w.Ctl.Persist = true
				sub := ids
				if serial {
					sub = ids[:10]
				}
				e := st2.BatchPreload(sub, workers)
				fired2 := w.Ctl.Fired["decode"] > 0
				w.Ctl.Reset()
				if !fired2 {
					e = nil
				}
				if serial {
					errSer = e
				} else {
					errPar = e
				}
			}
			if errPar != nil && errSer != nil && errCategory(errPar) != errCategory(errSer) {
				return w.viol("conc.error-category", "BatchPreload whose element decoder fails reports a %s error on the worker path (%d ids, %d workers) and a %s error on the serial path (10 ids): %v / %v", errCategory(errPar), len(ids), workers, errCategory(errSer), errPar, errSer)
			}
			w.Stats.Inc("conc.preload-error-category-compared")
		}
		w.Stats.Inc("conc.done-path")
		// every cached slab equals its sequential decode
		_, _, cached, _ := atree.VerifLayerIDs(w.Storage)
		sort.Slice(cached, func(i, j int) bool { return cached[i].Compare(cached[j]) < 0 })
		pendingSet := map[atree.SlabID]bool{}
		{
			stored, removed, _, _ := atree.VerifLayerIDs(w.Storage)
			for _, x := range append(stored, removed...) {
				pendingSet[x] = true
			}
		}
		for _, id := range cached {
			if pendingSet[id] {
				continue // shadowed by a pending change: not observable through the storage
			}
			slab := w.Storage.RetrieveIfLoaded(id)
			b, e := atree.EncodeSlab(slab, encMode)
			if e != nil || string(b) != string(w.Ledger.Regs[RegIDOf(id)]) {
				return w.viol("conc.cache-after-failure", "slab %s cached by the failed preload differs from its register", id)
			}
		}
		if v := w.DeepLive(cmpOpts{}); v != nil {
			return w.viol("conc.view-after-failure", "after the failed preload the storage no longer matches the model: [%s] %s", v.Class, v.Msg)
		}
	} else if err != nil {
		return w.viol("conc.error", "BatchPreload failed without the injected fault firing: %v", err)
	}
	return nil
}

// ---- (b) independent clients ----

type clientResult struct {
	results []string
	digest  string
	viol    *Violation
}

func runClientSolo(tr *Trace) *clientResult {
	w := NewWorld(tr.Config, NewStats())
	activeCtl = nil
	out := &clientResult{}
	for i := range tr.Steps {
		st := tr.Steps[i]
		w.StepNo = i
		if v := w.execGuarded(&st); v != nil {
			out.viol = v
			break
		}
	}
	out.results = w.Results
	out.digest = ledgerDigest(w.Ledger)
	return out
}

// runClientsInterleaved executes the clients' traces concurrently, each with its own ledger, storage and
// containers, interleaved by the scheduler at every ledger call and comparator/hash-input/decoder callback.
func runClientsInterleaved(traces []*Trace, policy string, r *Rng, stats *Stats, gcProb float64) ([]*clientResult, error) {
	n := len(traces)
	worlds := make([]*World, n)
	outs := make([]*clientResult, n)
	for i, tr := range traces {
		worlds[i] = NewWorld(tr.Config, NewStats())
		outs[i] = &clientResult{}
	}
	activeCtl = nil // value methods have no client context; the seams below do
	s := NewSched(policy, r.Sub("clients"))
	yieldOf := func(i int) func(string) {
		return func(site string) {
			if freeRunning {
				if r := jitter.next(); r%3 == 0 {
					runtime.Gosched()
				}
				return
			}
			s.Yield(fmt.Sprintf("c%d:%s", i, site))
		}
	}
	gr := r.Sub("gc")
	var gcMu sync.Mutex
	tasks := make([]func(), n)
	for i := range traces {
		i := i
		w := worlds[i]
		y := yieldOf(i)
		w.Ctl.Yield = y
		w.Ledger.Yield = func(site string, id RegID) { y("io") }
		tasks[i] = func() {
			tr := traces[i]
			for k := range tr.Steps {
				st := tr.Steps[k]
				w.StepNo = k
				if gcProb > 0 {
					gcMu.Lock()
					doGC := gr.Chance(gcProb)
					gcMu.Unlock()
					if doGC {
						runtimeGC()
						stats.Inc("pool.flush")
					}
				}
				if v := w.execGuarded(&st); v != nil {
					outs[i].viol = v
					break
				}
			}
			outs[i].results = w.Results
			outs[i].digest = ledgerDigest(w.Ledger)
		}
	}
	var live error
	if !freeRunning {
		// the clients' own commit / preload workers are scheduled too (job granularity, and inside a job at
		// element granularity): an encoder worker of one client can be parked in the middle of a slab while
		// another client encodes, hashes or commits - the process-wide pools are shared by all of them
		s.ElemStride = []int{0, 1, 3}[r.Sub("elem").Intn(3)]
		s.Install()
		defer s.Uninstall()
	}
	if freeRunning {
		var wg sync.WaitGroup
		for _, t := range tasks {
			wg.Add(1)
			go func(f func()) { defer wg.Done(); f() }(t)
		}
		wg.Wait()
	} else {
		live = s.RunBubble(TestingT, tasks)
		stats.Add("sched.client-decisions", s.Decisions)
		stats.Add("sched.elem-yields", s.ElemYields)
	}
	for _, w := range worlds {
		stats.Add("events.ledger-io", int(w.Ledger.seq))
	}
	return outs, live
}

type jitterSrc struct {
	mu sync.Mutex
	r  *Rng
}

func (j *jitterSrc) next() uint64 {
	j.mu.Lock()
	defer j.mu.Unlock()
	return j.r.U64()
}

var jitter = &jitterSrc{r: NewRng(12345)}

type c16aux struct {
	Mode    string       `json:"mode"` // workers | clients
	Variant concVariant  `json:"variant"`
	Policy  string       `json:"policy,omitempty"`
	Clients []*Trace     `json:"clients,omitempty"`
	GCProb  float64      `json:"gc_prob,omitempty"`
	Seed    uint64       `json:"seed,omitempty"`
}

func init() {
	ps := &PropSpec{
		ID: "C16", Level: "exploration",
		Verdict: []string{"conc.", "live.", "det.", "preload.", "client."},
		Rule: "(a) worker schedules: a generated history with commits of both flavours and batch preloads is executed with 1 worker, then re-executed with workers in {2,3,4,8,16,64} under seeded schedules of the real worker goroutines (policies random, always-first, always-last, round-robin, starve-one; yield points: every job taken by a commit/preload worker, every result receive of the collector, every ledger call of the committing goroutine and, in element-granular variants, every n-th element / type-info encode or element decode inside a worker's job); registers at every commit point, preload results and step results must equal the 1-worker execution; one encoder (commit) or decoder (preload) failure - or a failure that persists from the k-th call on, so that several workers fail in the same call - or a failing ledger read is injected to drive the early-exit paths; the registers a rejected deterministic commit leaves behind must equal those of the 1-worker execution; same error category, unchanged view, cached slabs equal to their sequential decode, no blocked goroutine when the bubble ends, and a fault-free retry converges. (b) independent clients: 2-6 clients, each with its own ledger, storage, containers and history (same slab-size setting), run as goroutines interleaved by the scheduler at every ledger call and every comparator / hash-input / decoder callback, with pool flushes; every client's step results and final registers must equal its solo execution. (c) the same workloads free-running with seeded jitter under the race detector (separate -race build, GOMAXPROCS 2/4/16): zero race reports. Non-trivial = (a) >= 1 scheduled commit of >= 3 slabs with >= 2 workers, or (b) >= 2 clients with >= 20 scheduler decisions; distinct by trace hash",
		ExpectedReach: []string{"sched.worker-decisions", "sched.client-decisions", "conc.done-path", "fault.callback.encode", "fault.callback.decode", "preload.parallel-path", "mode.workers", "mode.clients", "pool.flush"},
		Assumptions: []string{"global settings (slab size, collision limit) are written only between runs, never while a task is alive (the property excludes concurrent writes to them)",
			"the controlled scheduler creates happens-before edges, so data races are decided only by the free-running -race configuration, whose reproduction is probabilistic"},
	}

	judgeWorkers := func(tr *Trace, cv concVariant, agg *Stats) *Violation {
		// the sequential twin: one worker, no controlled schedule, but the same injected failure (its
		// handling evicts the cache, which may legitimately change compact-map bytes after a reload)
		bv := cv
		bv.Exec = ExecVariant{Workers: 1, Seed: cv.Exec.Seed}
		base, v := execConc(tr, bv, NewStats())
		if v != nil {
			if v.Class == "conc.error-category" {
				return v // the worker path with one worker already disagrees with the serial path
			}
			return &Violation{Class: "base." + v.Class, Step: v.Step, Msg: v.Msg}
		}
		other, v := execConc(tr, cv, agg)
		if v != nil {
			if v.Class == "live.deadlock" || v.Class[:min(5, len(v.Class))] == "conc." || v.Class == "live.goroutines" {
				return v
			}
			return &Violation{Class: "conc.outcome", Step: v.Step, Msg: fmt.Sprintf("history passes with 1 worker but fails under %v: [%s] %s", cv, v.Class, v.Msg)}
		}
		return comparePoints(base, other, fmt.Sprintf("variant %+v", cv))
	}

	judgeClients := func(a *c16aux, agg *Stats) *Violation {
		solos := make([]*clientResult, len(a.Clients))
		for i, tr := range a.Clients {
			solos[i] = runClientSolo(tr)
			if solos[i].viol != nil {
				return &Violation{Class: "base." + solos[i].viol.Class, Step: solos[i].viol.Step, Msg: solos[i].viol.Msg}
			}
		}
		old := runtime.GOMAXPROCS(0)
		if !freeRunning {
			runtime.GOMAXPROCS(1) // maximal reuse of the process-wide pools
		}
		outs, live := runClientsInterleaved(a.Clients, a.Policy, NewRng(a.Seed), agg, a.GCProb)
		runtime.GOMAXPROCS(old)
		if live != nil {
			return &Violation{Class: "live.deadlock", Msg: fmt.Sprintf("independent clients under policy %s: %v", a.Policy, live)}
		}
		for i := range outs {
			if outs[i].viol != nil {
				return &Violation{Class: "client.outcome", Step: outs[i].viol.Step, Msg: fmt.Sprintf("client %d passes alone but fails when interleaved with %d other client(s): [%s] %s", i, len(outs)-1, outs[i].viol.Class, outs[i].viol.Msg)}
			}
			if len(outs[i].results) != len(solos[i].results) {
				return &Violation{Class: "client.results", Msg: fmt.Sprintf("client %d: %d results when interleaved, %d alone", i, len(outs[i].results), len(solos[i].results))}
			}
			for k := range outs[i].results {
				if outs[i].results[k] != solos[i].results[k] {
					return &Violation{Class: "client.results", Step: k, Msg: fmt.Sprintf("client %d: result %q when interleaved, %q alone", i, outs[i].results[k], solos[i].results[k])}
				}
			}
			if outs[i].digest != solos[i].digest {
				return &Violation{Class: "client.bytes", Msg: fmt.Sprintf("client %d: final registers differ between interleaved and solo execution", i)}
			}
		}
		return nil
	}

	genTrace := func(r *Rng, cfg Config, prof *Profile, n int) (*Trace, *Violation) {
		tr := &Trace{Property: "C16", Config: cfg}
		w := NewWorld(cfg, NewStats())
		gen := NewGen(r, w, prof)
		for i := 0; i < n; i++ {
			st := gen.Next()
			tr.Steps = append(tr.Steps, st)
			w.StepNo = i
			if v := w.execGuarded(&st); v != nil {
				return tr, v
			}
		}
		tr.Steps = append(tr.Steps, Step{Op: "commit", Flavour: []string{"fc", "nfc"}[r.Intn(2)], Workers: 2})
		return tr, nil
	}

	ps.Run = func(ps *PropSpec, seed uint64, tier string, agg *Stats) *RunResult {
		r := NewRng(seed)
		cfg := baseConfig(r.Sub("config"), "conc", tier)
		res := &RunResult{Seed: seed}
		finish := func(tr *Trace, a *c16aux, v *Violation) *RunResult {
			res.Trace = tr
			res.Steps = len(tr.Steps)
			if v != nil {
				if ps.isVerdict(v.Class) {
					b, _ := json.Marshal(a)
					tr.Aux = b
					res.Violation = v
				} else {
					res.Cut = v
				}
			}
			res.Hash = traceHash(tr)
			return res
		}
		if r.Sub("mode").Chance(0.55) {
			// (a) worker schedules
			agg.Inc("mode.workers")
			prof := determinismProfile(r.Sub("profile"), cfg)
			prof.W["preload"] = 3
			prof.W["crash"] = 0
			tr, v := genTrace(r.Sub("workload"), cfg, prof, r.Sub("len").Range(15, 100))
			tr.Seed = seed
			if v != nil {
				res.Trace, res.Cut, res.Hash = tr, v, traceHash(tr)
				return res
			}
			vr := r.Sub("variants")
			d0 := agg.C["sched.worker-decisions"]
			nv := 3
			if tier == "thorough" {
				nv = 6
			}
			for k := 0; k < nv; k++ {
				cv := concVariant{Exec: ExecVariant{Workers: []int{2, 3, 4, 8, 16, 64}[vr.Intn(6)], Sched: []string{"random", "random", "first", "last", "rr", "starve"}[vr.Intn(6)], Seed: vr.U64(), Elem: []int{0, 1, 1, 2, 3, 7}[vr.Intn(6)]}}
				switch vr.Intn(5) {
				case 0:
					cv.FailEncode = vr.Range(1, 30)
				case 1:
					cv.FailDecode = vr.Range(1, 30)
				case 2:
					cv.FailRead = vr.Range(1, 14)
				}
				if (cv.FailEncode > 0 || cv.FailDecode > 0) && vr.Chance(0.4) {
					cv.Persist = true
				}
				a := &c16aux{Mode: "workers", Variant: cv}
				if v := judgeWorkers(tr, cv, agg); v != nil {
					return finish(tr, a, v)
				}
				res.Events += len(tr.Steps)
			}
			res.Events += agg.C["sched.worker-decisions"] - d0
			res.NonTrivial = agg.C["sched.worker-decisions"]-d0 >= 6 || freeRunning
			return finish(tr, nil, nil)
		}
		// (b) independent clients
		agg.Inc("mode.clients")
		nc := r.Sub("nclients").Range(2, 6)
		a := &c16aux{Mode: "clients", Policy: []string{"random", "random", "rr", "last", "starve"}[r.Sub("policy").Intn(5)], Seed: r.Sub("sched").U64(), GCProb: []float64{0, 0.02, 0.1}[r.Sub("gc").Intn(3)]}
		for i := 0; i < nc; i++ {
			cr := r.Sub(fmt.Sprintf("client%d", i))
			prof := sizeAdversarialProfile(cr.Sub("profile"), cfg)
			prof.Owners = []uint64{1, 2}
			prof.RootMapShare = 0.7 // maps use the pooled digesters
			prof.DigSpec = nil
			prof.W["m.get"] = 6
			prof.W["m.setfail"] = 4
			prof.W["commit"] = 4
			tr, v := genTrace(cr.Sub("workload"), cfg, prof, cr.Sub("len").Range(10, 60))
			tr.Seed = seed
			if v != nil {
				res.Trace, res.Cut, res.Hash = tr, v, traceHash(tr)
				return res
			}
			a.Clients = append(a.Clients, tr)
		}
		d0 := agg.C["sched.client-decisions"]
		v := judgeClients(a, agg)
		tr := &Trace{Property: "C16", Seed: seed, Config: cfg}
		for _, c := range a.Clients {
			tr.Steps = append(tr.Steps, c.Steps...)
			res.Events += len(c.Steps)
		}
		res.Events += agg.C["sched.client-decisions"] - d0
		res.NonTrivial = agg.C["sched.client-decisions"]-d0 >= 20 || freeRunning
		out := finish(tr, a, v)
		if v == nil {
			out.Sample = fmt.Sprintf("%d independent clients (policy %s, gc %.2f), e.g. client 0: %s", nc, a.Policy, a.GCProb, sampleOf(a.Clients[0], 8))
		}
		return out
	}
	ps.Replay = func(ps *PropSpec, tr *Trace, agg *Stats) *RunResult {
		var a c16aux
		_ = json.Unmarshal(tr.Aux, &a)
		res := &RunResult{Seed: tr.Seed, Trace: tr, Steps: len(tr.Steps), Hash: traceHash(tr)}
		var v *Violation
		if a.Mode == "clients" {
			v = judgeClients(&a, agg)
		} else {
			v = judgeWorkers(tr, a.Variant, agg)
		}
		if v != nil {
			if ps.isVerdict(v.Class) {
				res.Violation = v
			} else {
				res.Cut = v
			}
		}
		return res
	}
	Props[ps.ID] = ps
}

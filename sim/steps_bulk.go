package sim

// Bulk build, copy and byte conversion steps (C17).

import (
	"errors"
	"fmt"

	"github.com/onflow/atree"
)

func scalarValueOf(m MVal) (atree.Value, bool) {
	switch x := m.(type) {
	case MU64:
		return U64(x), true
	case MByte:
		return Byte(x), true
	case MStr:
		return Str{string(x)}, true
	case MSome:
		in, ok := scalarValueOf(x.In)
		if !ok {
			return nil, false
		}
		return SomeV{in}, true
	}
	return nil, false
}

func (w *World) newRootFromLib(st *Step, v atree.Value, c *MCont) {
	switch x := v.(type) {
	case *atree.Array:
		c.VID = RegIDOf(x.SlabID())
	case *atree.OrderedMap:
		c.VID = RegIDOf(x.SlabID())
	}
	w.Model.register(c)
	w.Handles[c.CID] = v
}

func init() {
	// bulk.arr: build a new array from a stream: the scalar elements of source c (if any) followed by N generated strings
	extraOps["bulk.arr"] = func(w *World, st *Step) *Violation {
		if _, dup := w.Model.Conts[st.CID]; dup || st.T == nil {
			return nil
		}
		var stream []MVal
		if src := w.Model.Conts[st.C]; src != nil && !src.IsMap {
			for _, e := range src.Elems {
				if _, ok := scalarValueOf(e); ok {
					stream = append(stream, e)
				}
			}
			w.Stats.Inc("bulk.from-existing")
		}
		if st.V != nil && st.V.S != nil {
			for i := 0; i < st.N; i++ {
				stream = append(stream, MStr(strFor(st.V.S[0]+i, st.V.S[1]+int(st.Pos+uint64(i)*31)%5)))
			}
		}
		if len(stream) >= 2 && st.Pos%3 == 0 {
			// the element provider fails in the middle of the stream (a source that cannot be read any further):
			// the build, into a scratch storage, must report the failure - not hand out a truncated array
			failAt := int(st.Pos/3) % len(stream)
			scratch := w.newStorage(NewSimLedger(), w.Ctl)
			k := 0
			fa, ferr := atree.NewArrayFromBatchData(scratch, OwnerAddress(st.Owner), *st.T, func() (atree.Value, error) {
				if k == failAt {
					return nil, ErrInjected
				}
				v, _ := scalarValueOf(stream[k])
				k++
				return v, nil
			})
			w.Stats.Inc("fault.stream.error")
			if ferr == nil {
				n := uint64(0)
				if fa != nil {
					n = fa.Count()
				}
				return w.viol("bulk.faulty-stream", "NewArrayFromBatchData whose element provider failed at element %d of %d returned no error (an array of %d elements)", failAt, len(stream), n)
			}
		}
		// freshly built child containers travel in the stream too (a deep copy hands the copies of nested values
		// to the batch build): each is stored inline or apart exactly as an Append would have stored it
		vals := make([]atree.Value, len(stream))
		for j, mv := range stream {
			vals[j], _ = scalarValueOf(mv)
		}
		var kids []*MCont
		for j := range st.Kids {
			kv, km, err := w.materialize(&st.Kids[j], st.Owner, nil)
			if err != nil {
				if err == errSkip {
					continue
				}
				if vv, ok := err.(*Violation); ok {
					return vv
				}
				return w.viol("bulk.error", "building a child for the stream failed: %v", err)
			}
			at := 0
			if len(stream) > 0 {
				at = int((st.Pos + uint64(j)*7919) % uint64(len(stream)+1))
			}
			stream = append(stream, nil)
			copy(stream[at+1:], stream[at:])
			stream[at] = km
			vals = append(vals, nil)
			copy(vals[at+1:], vals[at:])
			vals[at] = kv
			if ch := childOf(km); ch != nil {
				kids = append(kids, ch)
			}
			w.Stats.Inc("bulk.child-in-stream")
		}
		i := 0
		a, err := atree.NewArrayFromBatchData(w.Storage, OwnerAddress(st.Owner), *st.T, func() (atree.Value, error) {
			if i >= len(vals) {
				return nil, nil
			}
			v := vals[i]
			i++
			return v, nil
		})
		if err != nil {
			return w.viol("bulk.error", "NewArrayFromBatchData of %d elements failed: %v", len(stream), err)
		}
		c := &MCont{CID: st.CID, Type: *st.T, Owner: st.Owner, Dig: DigesterSpec{Kind: "default"}, Volatile: st.Owner == 0}
		c.Elems = append(c.Elems, stream...)
		w.newRootFromLib(st, a, c)
		for _, ch := range kids {
			// the build does not wire the handles it was given to the new parent: children are re-obtained through it
			w.attach(c, ch)
			w.dropHandles(ch)
		}
		w.Stats.Inc("bulk.array-built")
		if len(stream) == 0 {
			w.Stats.Inc("bulk.empty")
		}
		w.result("bulk.arr %d", len(stream))
		if st.End > 0 {
			w.Stats.Inc("bulk.post-build-burst")
			return extraOps["a.fill"](w, &Step{Op: "a.fill", C: st.CID, N: int(st.End), Sub: "mid", Pos: st.Pos*7919 + 13, V: &VSpec{S: &[2]int{900000 + int(st.Pos%1000)*300, 3 + int(st.Pos%17)}}})
		}
		return nil
	}

	// bulk.map: copy a map by batch build with the source's seed and iteration order (scalar values only)
	extraOps["bulk.map"] = func(w *World, st *Step) *Violation {
		src := w.Model.Conts[st.C]
		if _, dup := w.Model.Conts[st.CID]; dup || src == nil || !src.IsMap || st.T == nil {
			return nil
		}
		h, v := w.handle(src)
		if v != nil {
			return v
		}
		sm := h.(*atree.OrderedMap)
		type kv struct{ k, v MVal }
		var stream []kv
		var ierr *Violation
		err := sm.IterateReadOnly(func(k, val atree.Value) (bool, error) {
			km, ok := modelOfScalar(k)
			if !ok {
				ierr = w.viol("bulk.error", "source map yields a non-scalar key")
				return false, nil
			}
			idx := src.findKey(km)
			if idx < 0 {
				ierr = w.viol("res.map", "source map #%d yields key %s the model does not hold", src.CID, describe(km))
				return false, nil
			}
			if _, ok := scalarValueOf(src.Vals[idx]); ok {
				stream = append(stream, kv{km, src.Vals[idx]})
			}
			return true, nil
		})
		if ierr != nil {
			return ierr
		}
		if err != nil {
			return w.viol("bulk.error", "iterating the source map failed: %v", err)
		}
		bulkOwner := src.Owner
		if st.Keep {
			bulkOwner = st.Owner // built under another owner than its source (same seed, same order)
			w.Stats.Inc("bulk.cross-owner")
		}
		c := &MCont{CID: st.CID, IsMap: true, Type: *st.T, Owner: bulkOwner, Dig: src.Dig, Seed: sm.Seed(), Volatile: bulkOwner == 0}
		if (st.Sub == "dup" || st.Sub == "swap") && len(stream) >= 2 {
			// a faulty element stream (duplicated delivery / reordering of two neighbours), built into a scratch
			// storage: the build may refuse it, but whatever it accepts must be a valid map
			if v := w.faultyStreamBuild(st, c, sm.Seed(), len(stream), func(j int) (MVal, MVal) { return stream[j].k, stream[j].v }); v != nil {
				return v
			}
		}
		if len(stream) >= 2 && st.Pos%3 == 1 {
			failAt := int(st.Pos/3) % len(stream)
			scratch := w.newStorage(NewSimLedger(), w.Ctl)
			k := 0
			fm, ferr := atree.NewMapFromBatchData(scratch, OwnerAddress(src.Owner), w.digBuilder(c), *st.T, w.cmp, w.hip, sm.Seed(), func() (atree.Value, atree.Value, error) {
				if k == failAt {
					return nil, nil, ErrInjected
				}
				kv := stream[k]
				k++
				val, _ := scalarValueOf(kv.v)
				return w.valueOfKey(kv.k), val, nil
			})
			w.Stats.Inc("fault.stream.error")
			if ferr == nil {
				n := uint64(0)
				if fm != nil {
					n = fm.Count()
				}
				return w.viol("bulk.faulty-stream", "NewMapFromBatchData whose element provider failed at entry %d of %d returned no error (a map of %d entries)", failAt, len(stream), n)
			}
		}
		// some values of the stream are replaced by freshly built child containers (what a deep copy delivers for
		// nested values): keys and their order stay the source's
		vals := make([]atree.Value, len(stream))
		for j := range stream {
			vals[j], _ = scalarValueOf(stream[j].v)
		}
		var kids []*MCont
		replaced := map[int]MVal{} // position in the stream -> model value
		for j := range st.Kids {
			if len(stream) == 0 {
				break
			}
			at := int((st.Pos + uint64(j)*7919) % uint64(len(stream)))
			if _, dup := replaced[at]; dup {
				continue
			}
			kv, km, err := w.materialize(&st.Kids[j], bulkOwner, nil)
			if err != nil {
				if err == errSkip {
					continue
				}
				if vv, ok := err.(*Violation); ok {
					return vv
				}
				return w.viol("bulk.error", "building a child for the stream failed: %v", err)
			}
			vals[at] = kv
			replaced[at] = km
			if ch := childOf(km); ch != nil {
				kids = append(kids, ch)
			}
			w.Stats.Inc("bulk.child-in-map-stream")
		}
		i := 0
		m, err := atree.NewMapFromBatchData(w.Storage, OwnerAddress(bulkOwner), w.digBuilder(c), *st.T, w.cmp, w.hip, sm.Seed(), func() (atree.Value, atree.Value, error) {
			if i >= len(stream) {
				return nil, nil, nil
			}
			k := w.valueOfKey(stream[i].k)
			val := vals[i]
			i++
			return k, val, nil
		})
		if err != nil {
			return w.viol("bulk.error", "NewMapFromBatchData of %d entries failed: %v", len(stream), err)
		}
		if m.Seed() != sm.Seed() {
			return w.viol("bulk.seed", "batch-built map has seed %d, source %d", m.Seed(), sm.Seed())
		}
		// insertion order of the model = source insertion order restricted to the copied keys
		byKey := map[string]MVal{}
		for at, km := range replaced {
			byKey[describe(stream[at].k)] = km
		}
		for j := range src.Keys {
			if _, ok := scalarValueOf(src.Vals[j]); ok {
				c.Keys = append(c.Keys, src.Keys[j])
				if km, ok := byKey[describe(src.Keys[j])]; ok {
					c.Vals = append(c.Vals, km)
				} else {
					c.Vals = append(c.Vals, src.Vals[j])
				}
			}
		}
		w.newRootFromLib(st, m, c)
		for _, ch := range kids {
			// the build does not wire the handles it was given to the new parent: children are re-obtained through it
			w.attach(c, ch)
			w.dropHandles(ch)
		}
		w.Stats.Inc("bulk.map-built")
		w.result("bulk.map %d", len(stream))
		if st.End > 0 {
			// a burst of insertions into the freshly built map, through the very handle the build returned (no
			// reload in between): data slabs split under every index slab the build created
			w.Stats.Inc("bulk.post-build-burst")
			return extraOps["m.fill"](w, &Step{Op: "m.fill", C: st.CID, N: int(st.End), Pos: st.Pos*7919 + 13, V: &VSpec{S: &[2]int{900000 + int(st.Pos%1000)*300, 3 + int(st.Pos%17)}}})
		}
		return nil
	}

	// copy: CanCopyNonRefSimple / CopyNonRefSimple on any container
	extraOps["copy"] = func(w *World, st *Step) *Violation {
		src := w.Model.Conts[st.C]
		if _, dup := w.Model.Conts[st.CID]; dup || src == nil {
			return nil
		}
		h, v := w.handle(src)
		if v != nil {
			return v
		}
		want, why := w.copyPredicate(src)
		var can bool
		if src.IsMap {
			can = h.(*atree.OrderedMap).CanCopyNonRefSimple()
		} else {
			can = h.(*atree.Array).CanCopyNonRefSimple()
		}
		w.Stats.Inc(fmt.Sprintf("copy.offered:%v", can))
		if can != want {
			return w.viol("copy.predicate", "container #%d: CanCopyNonRefSimple()=%v, but %s", src.CID, can, why)
		}
		if !can {
			w.result("copy refused")
			return nil
		}
		c := cloneCont(src)
		c.CID = st.CID
		c.Parent = nil
		c.Detached = false
		// the copy may live under another owner than its source (a temporary-owner value copied into an account,
		// an account's value copied into a scratch area): it keeps the source's content, and a map its seed
		copyOwner := src.Owner
		if st.Keep {
			copyOwner = st.Owner
			w.Stats.Inc("copy.cross-owner")
		}
		c.Owner = copyOwner
		c.Volatile = copyOwner == 0
		var nv atree.Value
		var err error
		if src.IsMap {
			var m *atree.OrderedMap
			m, err = h.(*atree.OrderedMap).CopyNonRefSimple(OwnerAddress(copyOwner), w.digBuilder(src))
			nv = m
		} else {
			var a *atree.Array
			a, err = h.(*atree.Array).CopyNonRefSimple(OwnerAddress(copyOwner))
			nv = a
		}
		if err != nil {
			return w.viol("copy.failed", "container #%d: copy was offered but failed: %v", src.CID, err)
		}
		w.newRootFromLib(st, nv, c)
		if c.VID == src.VID {
			return w.viol("copy.shared", "copy of #%d has the same identity as its source", src.CID)
		}
		if src.Parent != nil {
			w.Stats.Inc("copy.of-inlined-or-nested")
		}
		w.Stats.Inc("copy.done")
		w.result("copy %d", c.Count())
		return nil
	}

	extraOps["bytes.toarr"] = func(w *World, st *Step) *Violation {
		if _, dup := w.Model.Conts[st.CID]; dup || st.T == nil {
			return nil
		}
		data := make([]byte, st.N)
		for i := range data {
			switch st.Sub {
			case "small":
				data[i] = byte((int(st.Pos) + i) % 24)
			case "big":
				data[i] = byte(24 + (int(st.Pos)+i*7)%232)
			default:
				data[i] = byte((int(st.Pos) + i*13) % 256)
			}
		}
		a, err := atree.ByteSliceToByteArray[Byte](w.Storage, OwnerAddress(st.Owner), *st.T, data, uint32(st.End))
		if err != nil {
			return w.viol("bulk.error", "ByteSliceToByteArray of %d bytes failed: %v", len(data), err)
		}
		c := &MCont{CID: st.CID, Type: *st.T, Owner: st.Owner, Dig: DigesterSpec{Kind: "default"}, Volatile: st.Owner == 0}
		for _, b := range data {
			c.Elems = append(c.Elems, MByte(b))
		}
		w.newRootFromLib(st, a, c)
		w.Stats.Inc("bytes.to-array")
		w.result("bytes.toarr %d", len(data))
		return nil
	}

	extraOps["bytes.fromarr"] = func(w *World, st *Step) *Violation {
		src := w.Model.Conts[st.C]
		if src == nil || src.IsMap {
			return nil
		}
		h, v := w.handle(src)
		if v != nil {
			return v
		}
		allBytes := true
		want := make([]byte, 0, len(src.Elems))
		for _, e := range src.Elems {
			b, ok := e.(MByte)
			if !ok {
				allBytes = false
				break
			}
			want = append(want, byte(b))
		}
		got, err := atree.ByteArrayToByteSlice[Byte](h.(*atree.Array))
		if !allBytes {
			var t *atree.UnexpectedElementTypeError
			if !errors.As(err, &t) {
				return w.viol("bytes.error", "array #%d holds non-byte elements but ByteArrayToByteSlice returned %v", src.CID, err)
			}
			w.Stats.Inc("bytes.from-array-refused")
			return nil
		}
		if err != nil {
			return w.viol("bytes.error", "ByteArrayToByteSlice on byte array #%d failed: %v", src.CID, err)
		}
		if string(got) != string(want) {
			return w.viol("bytes.content", "ByteArrayToByteSlice on #%d returned %d bytes differing from the model's %d", src.CID, len(got), len(want))
		}
		w.Stats.Inc("bytes.from-array")
		w.result("bytes.fromarr %d", len(got))
		return nil
	}

	extraGens["bulk.arr"] = func(g *Gen) (Step, bool) {
		if len(g.W.Model.Roots()) >= g.P.MaxRoots+3 {
			return Step{}, false
		}
		t := g.genType()
		limit := int(atree.MaxInlineArrayElementSize())
		st := Step{Op: "bulk.arr", CID: g.cid(), Owner: g.P.Owners[g.R.Intn(len(g.P.Owners))], T: &t, Pos: g.R.U64() % 1000}
		if c := g.pickTarget(false, false); c != nil && g.R.Chance(0.4) {
			st.C = c.CID
		}
		// lengths swept widely; element sizes from tiny to the inline limit
		st.N = []int{0, 1, 2, g.R.Range(3, 40), g.R.Range(40, 400), g.R.Range(400, 3000)}[g.R.Pick([]int{1, 1, 1, 4, 4, 2})]
		sz := []int{1, g.R.Range(2, 30), g.R.Range(30, limit-4), limit - 4 + g.R.Intn(3)}[g.R.Intn(4)]
		if sz < 1 {
			sz = 1
		}
		id := g.nextStr
		g.nextStr += st.N
		st.V = &VSpec{S: &[2]int{id, sz}}
		if g.R.Chance(0.4) {
			st.End = uint64(g.R.Range(20, 150)) // burst of insertions right after the build
		}
		if kr := g.R.Sub("bulk-kids"); kr.Chance(0.35) {
			st.Kids = g.genBulkKids(kr, limit)
		}
		return st, true
	}
	extraGens["bulk.map"] = func(g *Gen) (Step, bool) {
		c := g.pickTarget(true, false)
		if c == nil || len(g.W.Model.Roots()) >= g.P.MaxRoots+3 {
			return Step{}, false
		}
		t := g.genType()
		st := Step{Op: "bulk.map", C: c.CID, CID: g.cid(), T: &t, Sub: []string{"", "", "dup", "dup", "swap"}[g.R.Intn(5)], Pos: g.R.U64() % 100000}
		if g.R.Chance(0.5) {
			st.End = uint64(g.R.Range(20, 150)) // burst of insertions right after the build
		}
		if g.R.Chance(0.3) {
			st.Keep = true
			st.Owner = g.P.Owners[g.R.Intn(len(g.P.Owners))]
		}
		if kr := g.R.Sub("bulk-kids"); kr.Chance(0.3) {
			st.Kids = g.genBulkKids(kr, int(atree.MaxInlineMapElementSize())-10)
		}
		return st, true
	}
	extraGens["copy"] = func(g *Gen) (Step, bool) {
		c := g.pickTarget(false, true)
		if c == nil || len(g.W.Model.Roots()) >= g.P.MaxRoots+3 {
			return Step{}, false
		}
		st := Step{Op: "copy", C: c.CID, CID: g.cid()}
		if g.R.Chance(0.3) {
			st.Keep = true
			st.Owner = g.P.Owners[g.R.Intn(len(g.P.Owners))]
		}
		return st, true
	}
	extraGens["bytes.toarr"] = func(g *Gen) (Step, bool) {
		if len(g.W.Model.Roots()) >= g.P.MaxRoots+3 {
			return Step{}, false
		}
		t := g.genType()
		slab := int(g.W.Cfg.Slab)
		// around the fast-path threshold: estimated size * n vs slab size
		n := []int{0, 1, g.R.Range(2, 50), slab/4 + g.R.Intn(9) - 4, slab/3 + g.R.Intn(9) - 4, slab/2 + g.R.Intn(9) - 4, slab + g.R.Intn(50), g.R.Range(slab, 4*slab)}[g.R.Intn(8)]
		if n < 0 {
			n = 0
		}
		if n > 20000 {
			n = 20000
		}
		return Step{Op: "bytes.toarr", CID: g.cid(), Owner: g.P.Owners[g.R.Intn(len(g.P.Owners))], T: &t, N: n, End: uint64([]int{0, 3, 4, 1, 9}[g.R.Intn(5)]),
			Sub: []string{"small", "big", "mixed"}[g.R.Intn(3)], Pos: g.R.U64() % 256}, true
	}
	extraGens["bytes.fromarr"] = func(g *Gen) (Step, bool) {
		c := g.pickTarget(false, false)
		if c == nil {
			return Step{}, false
		}
		return Step{Op: "bytes.fromarr", C: c.CID}, true
	}
}

// copyPredicate: the copy must be offered exactly when the container is a single slab whose
// elements are all plain non-reference values.  Decided from the model, the exported inline
// limits and (for standalone containers) the register view.
func (w *World) copyPredicate(c *MCont) (bool, string) {
	vals := c.Elems
	if c.IsMap {
		vals = c.Vals
	}
	for _, v := range vals {
		if childOf(v) != nil {
			return false, "it holds a nested container"
		}
	}
	encSize := func(v MVal) int {
		val, _ := scalarValueOf(v)
		s, _ := val.Storable(nil, atree.Address{}, 1<<30)
		return int(s.ByteSize())
	}
	if c.IsMap {
		for i := range c.Keys {
			ks := encSize(c.Keys[i])
			if ks > int(atree.MaxInlineMapKeySize()) {
				return false, "a key is stored in a separate slab"
			}
			if encSize(c.Vals[i]) > int(atree.MaxInlineMapElementSize())-ks-1 {
				return false, "a value is stored in a separate slab"
			}
		}
	} else {
		for _, e := range c.Elems {
			if encSize(e) > int(atree.MaxInlineArrayElementSize()) {
				return false, "an element is stored in a separate slab"
			}
		}
	}
	// single slab?  inlined children are single slabs by definition; standalone ones are judged on the register view
	l, err := w.ViewLedger()
	if err != nil {
		return false, "view unavailable"
	}
	raw, ok := l.Regs[c.VID]
	if !ok {
		// inlined: locate it inside its host register (inlined containers carry their slab index) and look for
		// references it holds itself - an inlined map can still own an external collision group
		var found *PElem
		for _, id := range l.SortedIDs() {
			if id.Owner != c.VID.Owner || found != nil {
				continue
			}
			hp, herr := ParseRegister(id, l.Regs[id])
			if herr != nil {
				continue
			}
			hp.EachElem(func(e *PElem) {
				if found == nil && (e.Kind == "inl.arr" || e.Kind == "inl.map" || e.Kind == "inl.cmap") && e.Index == c.VID.Index {
					found = e
				}
			})
		}
		if found == nil {
			return false, "its inlined form was not found in any register"
		}
		holdsRef := false
		walkElem(found, func(e *PElem) {
			if e != found && (e.Kind == "ref" || e.Kind == "inl.arr" || e.Kind == "inl.map" || e.Kind == "inl.cmap") {
				holdsRef = true
			}
		})
		if found.Kind == "inl.map" {
			walkElements(found.MapElems, func(*PElem) {}, func(ent *PMapEntry) {
				if ent.Kind == "xgroup" {
					holdsRef = true
				}
			})
		}
		if holdsRef {
			return false, "it is inlined in its parent but holds a reference (external collision group or separately stored element)"
		}
		return true, "it is inlined in its parent (a single slab) and holds only plain values"
	}
	p, perr := ParseRegister(c.VID, raw)
	if perr != nil {
		return false, "its register cannot be parsed"
	}
	if !p.IsData() {
		return false, "it spans several slabs"
	}
	er, gr := p.Refs()
	if len(er)+len(gr) > 0 {
		return false, "its slab holds references (external collision group)"
	}
	return true, "it is a single slab holding only plain values"
}

// faultyStreamBuild feeds NewMapFromBatchData the source stream with one delivery fault and checks that the
// outcome is a refusal or a valid map (never a map whose recorded count, enumeration and lookups disagree).
func (w *World) faultyStreamBuild(st *Step, c *MCont, seed uint64, n int, at func(int) (MVal, MVal)) *Violation {
	order := make([]int, 0, n+1)
	p := int(st.Pos % uint64(n))
	for j := 0; j < n; j++ {
		order = append(order, j)
	}
	replayed := -1
	if st.Sub == "dup" {
		// element p is delivered again right after itself or at the end of the stream
		if st.Pos%2 == 0 {
			order = append(order[:p+1], append([]int{p}, order[p+1:]...)...)
			replayed = p + 1
		} else {
			order = append(order, p)
			replayed = n
		}
		w.Stats.Inc("fault.stream.duplicate")
	} else {
		q := (p + 1) % n
		order[p], order[q] = order[q], order[p]
		w.Stats.Inc("fault.stream.reorder")
	}
	scratch := w.newStorage(NewSimLedger(), w.Ctl)
	i := 0
	m, err := atree.NewMapFromBatchData(scratch, OwnerAddress(c.Owner), w.digBuilder(c), c.Type, w.cmp, w.hip, seed, func() (atree.Value, atree.Value, error) {
		if i >= len(order) {
			return nil, nil, nil
		}
		km, vm := at(order[i])
		k := w.valueOfKey(km)
		val, _ := scalarValueOf(vm)
		if i == replayed {
			val = U64(424242)
		}
		i++
		return k, val, nil
	})
	if err != nil {
		w.Stats.Inc("bulk.faulty-stream-refused")
		return nil
	}
	w.Stats.Inc("bulk.faulty-stream-accepted")
	got := 0
	seen := map[string]bool{}
	var bad string
	if err := m.IterateReadOnly(func(k, v atree.Value) (bool, error) {
		km, ok := modelOfScalar(k)
		if !ok {
			bad = "non-scalar key"
			return false, nil
		}
		if seen[keyString(km)] {
			bad = "key " + describe(km) + " enumerated twice"
			return false, nil
		}
		seen[keyString(km)] = true
		got++
		return true, nil
	}); err != nil {
		return w.viol("bulk.faulty-stream", "a map built from a %s stream cannot be enumerated: %v", st.Sub, err)
	}
	if bad != "" {
		return w.viol("bulk.faulty-stream", "a map built from a %s stream: %s", st.Sub, bad)
	}
	if m.Count() != uint64(got) {
		return w.viol("bulk.faulty-stream", "a map built from a %s stream of %d deliveries was accepted with Count()=%d but enumerates %d entries", st.Sub, len(order), m.Count(), got)
	}
	for j := 0; j < n; j++ {
		km, _ := at(j)
		if _, err := m.Get(w.cmp, w.hip, w.valueOfKey(km)); err != nil {
			return w.viol("bulk.faulty-stream", "a map built from a %s stream was accepted but Get(%s) fails: %v", st.Sub, describe(km), err)
		}
	}
	if err := atree.VerifyMap(m, OwnerAddress(c.Owner), c.Type, typeInfoEqual, w.hip, true); err != nil {
		return w.viol("bulk.faulty-stream", "a map built from a %s stream was accepted but is not structurally valid: %v", st.Sub, err)
	}
	return nil
}

// genBulkKids: child containers for the element stream of a batch build, their sizes swept across the per-element
// inline limit.
func (g *Gen) genBulkKids(kr *Rng, limit int) []VSpec {
	var out []VSpec
	for k := kr.Range(1, 5); k > 0; k-- {
		cs := &CSpec{CID: g.cid(), T: g.genType()}
		width := []int{1, 2, 3, 5, 9}[kr.Intn(5)] // encoded bytes of one element
		val := []uint64{7, 200, 60000, 1 << 20, 1 << 40}[map[int]int{1: 0, 2: 1, 3: 2, 5: 3, 9: 4}[width]]
		n := []int{0, 1, kr.Range(2, 12), (limit-20)/width + kr.Intn(9) - 4, (limit-20)/width + kr.Intn(9) - 4, limit/width + kr.Range(1, 30)}[kr.Intn(6)]
		if n < 0 {
			n = 0
		}
		isMap := kr.Chance(0.3)
		for e := 0; e < n; e++ {
			if isMap {
				if e >= len(g.keys) || e >= 40 {
					break
				}
				cs.K = append(cs.K, g.keys[e])
				cs.V = append(cs.V, VSpec{U: u64p(val + uint64(e%5))})
			} else {
				cs.E = append(cs.E, VSpec{U: u64p(val + uint64(e%5))})
			}
		}
		if isMap {
			out = append(out, VSpec{Map: cs})
		} else {
			out = append(out, VSpec{Arr: cs})
		}
	}
	return out
}

package sim

// O-RES / O-DEEP comparison of library values with model values.

import (
	"errors"
	"fmt"

	"github.com/onflow/atree"
)

type cmpOpts struct {
	order    bool // check map iteration order against the canonical order
	lookups  bool // additionally read every element by index / key
	maxDepth int
}

// mismatch carries the oracle class a comparison failure belongs to.
type mismatch struct {
	class string
	msg   string
}

func (m *mismatch) Error() string { return m.msg }

func mm(class, format string, args ...any) *mismatch {
	return &mismatch{class, fmt.Sprintf(format, args...)}
}

// cmpValue compares a library value with a model value, recursively.
func (w *World) cmpValue(storage atree.SlabStorage, v atree.Value, m MVal, o cmpOpts, path string) *mismatch {
	switch x := m.(type) {
	case MU64:
		g, ok := v.(U64)
		if !ok || uint64(g) != uint64(x) {
			return mm("content", "%s: got %v, want %s", path, v, describe(m))
		}
	case MByte:
		g, ok := v.(Byte)
		if !ok || byte(g) != byte(x) {
			return mm("content", "%s: got %v, want %s", path, v, describe(m))
		}
	case MStr:
		g, ok := v.(Str)
		if !ok || g.S != string(x) {
			return mm("content", "%s: got %v, want %s", path, v, describe(m))
		}
	case MSome:
		g, ok := v.(SomeV)
		if !ok {
			return mm("content", "%s: got %v, want %s", path, v, describe(m))
		}
		return w.cmpValue(storage, g.V, x.In, o, path+".some")
	case *MCont:
		if x.IsMap {
			g, ok := v.(*atree.OrderedMap)
			if !ok {
				return mm("content", "%s: got %T, want map #%d", path, v, x.CID)
			}
			return w.cmpMap(storage, g, x, o, path)
		}
		g, ok := v.(*atree.Array)
		if !ok {
			return mm("content", "%s: got %T, want array #%d", path, v, x.CID)
		}
		return w.cmpArray(storage, g, x, o, path)
	default:
		return mm("harness", "%s: unknown model value %T", path, m)
	}
	return nil
}

func vidOf(v interface{ ValueID() atree.ValueID }) RegID {
	id := v.ValueID()
	var r RegID
	for i := 0; i < 8; i++ {
		r.Owner = r.Owner<<8 | uint64(id[i])
		r.Index = r.Index<<8 | uint64(id[8+i])
	}
	return r
}

func (w *World) cmpArray(storage atree.SlabStorage, a *atree.Array, c *MCont, o cmpOpts, path string) *mismatch {
	path = fmt.Sprintf("%s/arr#%d", path, c.CID)
	if a.Count() != uint64(len(c.Elems)) {
		return mm("count", "%s: Count()=%d, model %d", path, a.Count(), len(c.Elems))
	}
	if !typeInfoEqual(a.Type(), c.Type) {
		return mm("type", "%s: Type()=%v, model %v", path, a.Type(), c.Type)
	}
	if got := vidOf(a); got != c.VID {
		return mm("valueid", "%s: ValueID()=%s, model %s", path, got, c.VID)
	}
	i := 0
	var inner *mismatch
	err := a.IterateReadOnly(func(v atree.Value) (bool, error) {
		if i >= len(c.Elems) {
			inner = mm("iter", "%s: read-only iteration yields more than %d elements", path, len(c.Elems))
			return false, nil
		}
		if mmx := w.cmpValue(storage, v, c.Elems[i], o, fmt.Sprintf("%s[%d]", path, i)); mmx != nil {
			inner = mmx
			return false, nil
		}
		i++
		return true, nil
	})
	if err != nil {
		return mm("iter", "%s: IterateReadOnly failed: %v", path, err)
	}
	if inner != nil {
		return inner
	}
	if i != len(c.Elems) {
		return mm("iter", "%s: read-only iteration yields %d elements, model %d", path, i, len(c.Elems))
	}
	if o.lookups {
		for j := range c.Elems {
			v, err := a.Get(uint64(j))
			if err != nil {
				return mm("lookup", "%s: Get(%d) failed on an in-range index: %v", path, j, err)
			}
			// containers were compared through iteration already; compare scalars and shape here
			if mmx := w.cmpShallow(v, c.Elems[j], fmt.Sprintf("%s.Get(%d)", path, j)); mmx != nil {
				return mmx
			}
		}
	}
	return nil
}

func (w *World) cmpShallow(v atree.Value, m MVal, path string) *mismatch {
	for {
		switch x := m.(type) {
		case MSome:
			g, ok := v.(SomeV)
			if !ok {
				return mm("lookup", "%s: got %v, want %s", path, v, describe(m))
			}
			v, m = g.V, x.In
			continue
		case MU64:
			if g, ok := v.(U64); !ok || uint64(g) != uint64(x) {
				return mm("lookup", "%s: got %v, want %s", path, v, describe(m))
			}
		case MByte:
			if g, ok := v.(Byte); !ok || byte(g) != byte(x) {
				return mm("lookup", "%s: got %v, want %s", path, v, describe(m))
			}
		case MStr:
			if g, ok := v.(Str); !ok || g.S != string(x) {
				return mm("lookup", "%s: got %v, want %s", path, v, describe(m))
			}
		case *MCont:
			switch g := v.(type) {
			case *atree.Array:
				if x.IsMap || g.Count() != uint64(len(x.Elems)) || vidOf(g) != x.VID {
					return mm("lookup", "%s: got array(count %d, %s), want %s", path, g.Count(), vidOf(g), describe(m))
				}
			case *atree.OrderedMap:
				if !x.IsMap || g.Count() != uint64(len(x.Keys)) || vidOf(g) != x.VID {
					return mm("lookup", "%s: got map(count %d, %s), want %s", path, g.Count(), vidOf(g), describe(m))
				}
			default:
				return mm("lookup", "%s: got %v, want %s", path, v, describe(m))
			}
		}
		return nil
	}
}

// modelOfScalar converts a library scalar (possibly wrapped) to a model value.
func modelOfScalar(v atree.Value) (MVal, bool) {
	switch x := v.(type) {
	case U64:
		return MU64(x), true
	case Str:
		return MStr(x.S), true
	case SomeV:
		in, ok := modelOfScalar(x.V)
		if !ok {
			return nil, false
		}
		return MSome{in}, true
	}
	return nil, false
}

func (w *World) cmpMap(storage atree.SlabStorage, g *atree.OrderedMap, c *MCont, o cmpOpts, path string) *mismatch {
	path = fmt.Sprintf("%s/map#%d", path, c.CID)
	if g.Count() != uint64(len(c.Keys)) {
		return mm("count", "%s: Count()=%d, model %d", path, g.Count(), len(c.Keys))
	}
	if !typeInfoEqual(g.Type(), c.Type) {
		return mm("type", "%s: Type()=%v, model %v", path, g.Type(), c.Type)
	}
	if got := vidOf(g); got != c.VID {
		return mm("valueid", "%s: ValueID()=%s, model %s", path, got, c.VID)
	}
	seen := make(map[string]bool, len(c.Keys))
	var order []int
	var inner *mismatch
	err := g.IterateReadOnly(func(k, v atree.Value) (bool, error) {
		km, ok := modelOfScalar(k)
		if !ok {
			inner = mm("content", "%s: iteration yields non-scalar key %v", path, k)
			return false, nil
		}
		ks := keyString(km)
		if seen[ks] {
			inner = mm("iter", "%s: iteration yields key %s twice", path, describe(km))
			return false, nil
		}
		seen[ks] = true
		idx := c.findKey(km)
		if idx < 0 {
			inner = mm("content", "%s: iteration yields key %s that the model does not hold", path, describe(km))
			return false, nil
		}
		order = append(order, idx)
		if mmx := w.cmpValue(storage, v, c.Vals[idx], o, fmt.Sprintf("%s[%s]", path, describe(km))); mmx != nil {
			inner = mmx
			return false, nil
		}
		return true, nil
	})
	if err != nil {
		return mm("iter", "%s: IterateReadOnly failed: %v", path, err)
	}
	if inner != nil {
		return inner
	}
	if len(order) != len(c.Keys) {
		return mm("iter", "%s: read-only iteration yields %d entries, model %d", path, len(order), len(c.Keys))
	}
	if o.order {
		// the seed is part of the content; compact-map re-materialisation may legally adopt a shared seed,
		// so the order is judged against the seed the map reports now.
		cc := *c
		cc.Seed = g.Seed()
		want := canonicalOrder(&cc)
		for i := range want {
			if want[i] != order[i] {
				return mm("order", "%s: iteration position %d yields key %s, canonical order wants %s",
					path, i, describe(c.Keys[order[i]]), describe(c.Keys[want[i]]))
			}
		}
	}
	if o.lookups {
		for j, k := range c.Keys {
			v, err := g.Get(w.cmp, w.hip, w.valueOfKey(k))
			if err != nil {
				return mm("lookup", "%s: Get(%s) failed for a present key: %v", path, describe(k), err)
			}
			if mmx := w.cmpShallow(v, c.Vals[j], fmt.Sprintf("%s.Get(%s)", path, describe(k))); mmx != nil {
				return mmx
			}
		}
	}
	return nil
}

// ---- error expectations ----

type errWant int

const (
	wantNoErr errWant = iota
	wantIndexOOB
	wantKeyNotFound
	wantSliceOOB
	wantInvalidSlice
	wantCollisionLimit
	wantSlabIDErr
)

func errCategory(err error) string {
	var ue *atree.UserError
	var fe *atree.FatalError
	var ee *atree.ExternalError
	switch {
	case err == nil:
		return "none"
	case errors.As(err, &ue):
		return "user"
	case errors.As(err, &fe):
		return "fatal"
	case errors.As(err, &ee):
		return "external"
	}
	return "uncategorised"
}

func checkErr(err error, want errWant) string {
	switch want {
	case wantNoErr:
		if err != nil {
			return fmt.Sprintf("unexpected error (%s): %v", errCategory(err), err)
		}
	case wantIndexOOB:
		var t *atree.IndexOutOfBoundsError
		if !errors.As(err, &t) || errCategory(err) != "user" {
			return fmt.Sprintf("want IndexOutOfBoundsError/user, got %T (%s): %v", err, errCategory(err), err)
		}
	case wantKeyNotFound:
		var t *atree.KeyNotFoundError
		if !errors.As(err, &t) || errCategory(err) != "user" {
			return fmt.Sprintf("want KeyNotFoundError/user, got %T (%s): %v", err, errCategory(err), err)
		}
	case wantSliceOOB:
		var t *atree.SliceOutOfBoundsError
		if !errors.As(err, &t) || errCategory(err) != "user" {
			return fmt.Sprintf("want SliceOutOfBoundsError/user, got %T (%s): %v", err, errCategory(err), err)
		}
	case wantInvalidSlice:
		var t *atree.InvalidSliceIndexError
		if !errors.As(err, &t) || errCategory(err) != "user" {
			return fmt.Sprintf("want InvalidSliceIndexError/user, got %T (%s): %v", err, errCategory(err), err)
		}
	case wantCollisionLimit:
		var t *atree.CollisionLimitError
		if !errors.As(err, &t) || errCategory(err) != "fatal" {
			return fmt.Sprintf("want CollisionLimitError/fatal, got %T (%s): %v", err, errCategory(err), err)
		}
	case wantSlabIDErr:
		var t *atree.SlabIDError
		if !errors.As(err, &t) {
			return fmt.Sprintf("want SlabIDError, got %T (%s): %v", err, errCategory(err), err)
		}
	}
	return ""
}

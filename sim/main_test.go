package sim

// Worker entry point.  The orchestrator (/verif/bin/check) builds this package as a
// test binary (testing/synctest needs *testing.T) and runs it with a job file.

import (
	"encoding/json"
	"fmt"
	"os"
	"runtime"
	"runtime/debug"
	"testing"
	"time"
)

type Job struct {
	Prop     string  `json:"prop"`
	Tier     string  `json:"tier"`
	BaseSeed uint64  `json:"base_seed"`
	Worker   int     `json:"worker"`
	Workers  int     `json:"workers"`
	BudgetS  float64 `json:"budget_s"`
	MaxRuns  int     `json:"max_runs"`
	Out      string  `json:"out"`
	Replay   string  `json:"replay,omitempty"`
	Crumb    string  `json:"crumb,omitempty"`
	ShrinkS  float64 `json:"shrink_s,omitempty"`
	SingleSeed uint64 `json:"single_seed,omitempty"`
	SeedList []uint64 `json:"seed_list,omitempty"` // run exactly these run seeds (cross-process twin)
}

type WorkerOut struct {
	Prop       string            `json:"prop"`
	Runs       int               `json:"runs"`
	Cuts       int               `json:"cuts"`
	CutSample  string            `json:"cut_sample,omitempty"`
	Hashes     []string          `json:"hashes"` // trace hashes of non-trivial runs
	Samples    []string          `json:"samples"`
	Stats      map[string]int    `json:"stats"`
	Steps      int               `json:"steps"`
	Events     int               `json:"events"`
	WallS      float64           `json:"wall_s"`
	Violation  *Violation        `json:"violation,omitempty"`
	FailTrace  *Trace            `json:"fail_trace,omitempty"`
	MinTrace   *Trace            `json:"min_trace,omitempty"`
	MinViol    *Violation        `json:"min_violation,omitempty"`
	Extra      map[string]any    `json:"extra,omitempty"`
	Seeds      [2]uint64         `json:"seeds"`
	Meta       map[string]any    `json:"meta"`
	Digests    map[string]string `json:"digests,omitempty"` // run seed -> ledger-history digest
	Directed   []DirectedOut     `json:"directed,omitempty"`
}

type DirectedOut struct {
	Violation *Violation `json:"violation,omitempty"`
	Cut       string     `json:"cut,omitempty"` // a directed scenario that ended early (a refused commit, ...) - reported, never a verdict
	Trace     *Trace     `json:"trace"`
}

func TestWorker(t *testing.T) {
	jobPath := os.Getenv("VERIF_JOB")
	if jobPath == "" {
		t.Skip("no VERIF_JOB")
	}
	raw, err := os.ReadFile(jobPath)
	if err != nil {
		t.Fatal(err)
	}
	var job Job
	if err := json.Unmarshal(raw, &job); err != nil {
		t.Fatal(err)
	}
	ps := Props[job.Prop]
	if ps == nil {
		t.Fatalf("unknown property %q", job.Prop)
	}
	TestingT = t
	if job.Crumb != "" && job.Prop == "C19" {
		crumbInputPath = job.Crumb + ".input"
	}
	debug.SetGCPercent(200)
	out := &WorkerOut{Prop: job.Prop, Stats: map[string]int{}, Meta: map[string]any{"level": ps.Level, "rule": ps.Rule, "assumptions": ps.Assumptions, "expected_reach": ps.ExpectedReach}}
	agg := NewStats()
	start := time.Now()

	write := func() {
		out.Stats = agg.C
		out.WallS = time.Since(start).Seconds()
		b, _ := json.Marshal(out)
		if err := os.WriteFile(job.Out, b, 0o644); err != nil {
			t.Fatal(err)
		}
	}

	if job.Replay != "" {
		raw, err := os.ReadFile(job.Replay)
		if err != nil {
			t.Fatal(err)
		}
		var rf ReplayFile
		if err := json.Unmarshal(raw, &rf); err != nil {
			t.Fatal(err)
		}
		res := ps.Replay(ps, rf.Trace, agg)
		out.Runs = 1
		out.Violation = res.Violation
		if res.Violation == nil && res.Cut != nil {
			out.CutSample = res.Cut.Error()
			out.Cuts = 1
		}
		write()
		return
	}

	if job.Worker == 0 && job.SingleSeed == 0 && len(job.SeedList) == 0 {
		for _, mk := range ps.Directed {
			tr := mk()
			res := safeReplayInto(ps, tr, agg)
			agg.Inc("directed.scenarios-run")
			d := DirectedOut{Trace: tr}
			if res != nil {
				d.Violation = res.Violation
				if res.Violation == nil && res.Cut != nil {
					d.Cut = res.Cut.Error()
				}
			}
			out.Directed = append(out.Directed, d)
		}
	}
	seen := map[string]bool{}
	for i := job.Worker; ; i += job.Workers {
		if job.MaxRuns > 0 && out.Runs >= job.MaxRuns {
			break
		}
		if time.Since(start).Seconds() > job.BudgetS && len(job.SeedList) == 0 {
			break
		}
		seed := DeriveSeed(job.BaseSeed, job.Prop, uint64(i))
		if job.SingleSeed != 0 {
			seed = job.SingleSeed
		}
		if len(job.SeedList) > 0 {
			if out.Runs >= len(job.SeedList) {
				break
			}
			seed = job.SeedList[out.Runs]
		}
		if job.Crumb != "" {
			_ = os.WriteFile(job.Crumb, []byte(fmt.Sprintf(`{"prop":%q,"seed":%d,"tier":%q}`, job.Prop, seed, job.Tier)), 0o644)
		}
		if out.Runs == 0 {
			out.Seeds[0] = seed
		}
		out.Seeds[1] = seed
		g0 := runtime.NumGoroutine()
		res := ps.Run(ps, seed, job.Tier, agg)
		// O-LIVE: goroutines started by commits/preloads must all have stopped.  A leaked goroutine stays
		// forever, so this is judged once per run with a lot of patience (no false alarm under load).
		if ps.isVerdict("live.goroutines") && res.Violation == nil && runtime.NumGoroutine() > g0 {
			deadline := time.Now().Add(30 * time.Second)
			for runtime.NumGoroutine() > g0 && time.Now().Before(deadline) {
				time.Sleep(5 * time.Millisecond)
			}
			if n := runtime.NumGoroutine(); n > g0 {
				res.Violation = &Violation{Class: "live.goroutines", Msg: fmt.Sprintf("%d goroutine(s) started during the run are still alive 30 s after it ended (a commit or preload left workers behind)", n-g0)}
			}
		}
		out.Runs++
		out.Steps += res.Steps
		out.Events += res.Events
		if res.Cut != nil {
			if dump := os.Getenv("VERIF_DUMP_CUT"); dump != "" && res.Trace != nil && ps.Replay != nil {
				// developer aid: minimise and save a run that was cut on a foreign divergence
				ps2 := *ps
				ps2.Verdict = append(append([]string{}, ps.Verdict...), res.Cut.Class)
				min := Shrink(&ps2, res.Trace, res.Cut.Class, res.Cut.Step, 30*time.Second)
				rf := ReplayFile{Property: ps.ID, Seed: seed, Class: res.Cut.Class, Message: res.Cut.Msg, FailedAt: res.Cut.Step, Trace: min, Original: res.Trace}
				b, _ := json.MarshalIndent(rf, "", " ")
				_ = os.WriteFile(dump, b, 0o644)
			}
			out.Cuts++
			if out.CutSample == "" {
				out.CutSample = fmt.Sprintf("seed %d: %s", seed, res.Cut.Error())
			}
		}
		if res.NonTrivial && res.Violation == nil && res.Cut == nil && !seen[res.Hash] {
			seen[res.Hash] = true
			out.Hashes = append(out.Hashes, res.Hash)
			if len(out.Samples) < 2 {
				if res.Sample != "" {
					out.Samples = append(out.Samples, res.Sample)
				} else if res.Trace != nil {
					out.Samples = append(out.Samples, sampleOf(res.Trace, 12))
				}
			}
		}
		if res.Digest == "" && wantEventDigest {
			res.Digest = res.Hash
			if res.Violation != nil {
				res.Digest += "!" + res.Violation.Class
			}
		}
		if res.Digest != "" {
			if out.Digests == nil {
				out.Digests = map[string]string{}
			}
			out.Digests[fmt.Sprint(seed)] = res.Digest
		}
		for k, v := range res.Extra {
			if out.Extra == nil {
				out.Extra = map[string]any{}
			}
			out.Extra[k] = v
		}
		if res.Violation != nil {
			out.Violation = res.Violation
			out.FailTrace = res.Trace
			if res.Trace != nil && ps.Replay != nil {
				budget := time.Duration(job.ShrinkS * float64(time.Second))
				if budget <= 0 {
					budget = 20 * time.Second
				}
				min := Shrink(ps, res.Trace, res.Violation.Class, res.Violation.Step, budget)
				if r2 := safeReplay(ps, min); r2 != nil && r2.Violation != nil {
					out.MinTrace = min
					out.MinViol = r2.Violation
				}
			}
			break
		}
	}
	if len(distinctSchedules) > 0 {
		if out.Extra == nil {
			out.Extra = map[string]any{}
		}
		out.Extra["distinct_schedule_choice_sequences(this worker)"] = len(distinctSchedules)
	}
	write()
}

// TestingT is the *testing.T of the worker (needed by testing/synctest).
var TestingT *testing.T

type ReplayFile struct {
	Property string     `json:"property"`
	Seed     uint64     `json:"seed"`
	Class    string     `json:"class"`
	Message  string     `json:"message"`
	FailedAt int        `json:"failed_at"`
	Trace    *Trace     `json:"trace"`
	Original *Trace     `json:"original_trace,omitempty"`
}

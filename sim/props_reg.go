package sim

// C05, C06, C07, C09: register-level oracles evaluated on the view a commit would leave.

import (
	"github.com/onflow/atree"
)

type regWhich struct {
	structure, sizes, roundtrip, flags, reach, inline, witness, content bool
}

// regCheck builds the register view (durable registers overlaid with the pending
// write set) and evaluates the selected oracles.
func (w *World) regCheck(which regWhich) *Violation {
	l, err := w.ViewLedger()
	if err != nil {
		if ee, ok := err.(*encodeError); ok {
			return w.viol("commit.error", "a valid in-memory state cannot be encoded: %v", ee)
		}
		return w.viol("harness", "view ledger: %v", err)
	}
	view, rvx := BuildView(l)
	if rvx != nil {
		return w.viol(rvx.class, "%s", rvx.msg)
	}
	var roots []RegID
	for _, r := range w.Model.Roots() {
		roots = append(roots, r.VID)
	}
	var wr *walkResult
	if which.reach {
		wr, rvx = view.CheckReachability(roots)
	} else {
		wr, rvx = view.Walk(roots)
	}
	if rvx != nil {
		return w.viol(rvx.class, "%s", rvx.msg)
	}
	w.Stats.Add("reach.inlined-children", wr.Inlined)
	w.Stats.Add("reach.compact-encoding", wr.Compact)
	w.Stats.Add("reach.external-group", wr.XGroups)
	w.Stats.Add("reach.inline-group", wr.Groups)
	w.Stats.Add("reach.last-level-list", wr.Lists)
	if wr.MaxGroupLevel >= 2 {
		w.Stats.Inc("reach.group-level>=2")
	}
	w.Stats.Add("reach.large-value", wr.LargeVals)
	for _, p := range view.Regs {
		// shared sections past the widths at which CBOR heads change (24 entries; 32 digests = 256 bytes)
		if len(p.IEDTypes) >= 25 {
			w.Stats.Inc("reach.type-table>=25")
		}
		for i := range p.IED {
			if p.IED[i].Kind == "cmap" && len(p.IED[i].Keys) >= 24 {
				w.Stats.Inc("reach.record-fields>=24")
				if len(p.IED[i].Keys) >= 32 {
					w.Stats.Inc("reach.record-fields>=32")
				}
			}
		}
	}
	for _, t := range wr.Trees {
		if t.Height >= 3 {
			w.Stats.Inc("reach.tree-height>=3")
		}
		if len(t.Slabs) >= 33 {
			w.Stats.Inc("reach.tree>=33-slabs")
		}
	}
	lim := currentLimits(w.Cfg.Slab)
	if which.structure {
		if rvx := view.CheckStructure(wr, lim); rvx != nil {
			return w.viol(rvx.class, "%s", rvx.msg)
		}
	}
	if which.sizes {
		live := func(id RegID) atree.Slab { return w.Storage.RetrieveIfLoaded(id.SlabID()) }
		if rvx := view.CheckSizes(live); rvx != nil {
			return w.viol(rvx.class, "%s", rvx.msg)
		}
	}
	if which.roundtrip {
		for _, id := range l.SortedIDs() {
			if rvx := view.CheckRoundTrip(id); rvx != nil {
				return w.viol(rvx.class, "%s", rvx.msg)
			}
		}
		w.Stats.Add("registers.round-tripped", len(l.Regs))
	}
	if which.flags {
		if rvx := view.CheckFlags(wr.ValueRoots); rvx != nil {
			return w.viol(rvx.class, "%s", rvx.msg)
		}
	}
	if which.inline {
		if rvx := view.CheckInlineRule(wr, lim); rvx != nil {
			return w.viol(rvx.class, "%s", rvx.msg)
		}
	}
	if which.witness {
		if v := w.witnessVerify(); v != nil {
			return v
		}
	}
	if which.content {
		// the slabs decoded from these registers alone carry the content the producers had: elements in order,
		// types, counts, inlined children - and intact sibling links and child references, or reading would fail
		dl, err := w.VirtualLedger()
		if err == nil {
			if v := w.Recover(dl, w.Model, cmpOpts{}, "rt.content"); v != nil {
				return v
			}
		}
	}
	return nil
}

// witnessVerify runs the in-repo structural verifiers as second witnesses on transient handles.
func (w *World) witnessVerify() *Violation {
	hip := MakeHashInputProvider(nil)
	for _, r := range w.Model.Roots() {
		v, err := w.openRoot(w.Storage, r)
		if err != nil {
			return w.viol("reopen", "root #%d cannot be opened: %v", r.CID, err)
		}
		switch x := v.(type) {
		case *atree.Array:
			if err := atree.VerifyArray(x, OwnerAddress(r.Owner), r.Type, typeInfoEqual, hip, true); err != nil {
				return w.viol("witness.verify", "VerifyArray on root #%d: %v", r.CID, err)
			}
		case *atree.OrderedMap:
			if err := atree.VerifyMap(x, OwnerAddress(r.Owner), r.Type, typeInfoEqual, hip, true); err != nil {
				return w.viol("witness.verify", "VerifyMap on root #%d: %v", r.CID, err)
			}
		}
	}
	return nil
}

func sizeAdversarialProfile(r *Rng, cfg Config) *Profile {
	w := map[string]int{
		"a.append": 8, "a.insert": 12, "a.set": 12, "a.remove": 14, "a.get": 1,
		"m.set": 22, "m.remove": 12, "m.get": 1,
		"settype": 2, "popall": 1, "reget": 1, "commit": 3, "dropcache": 1, "reopen": 1, "new": 2,
		"a.fill": 2, "m.fill": 2, "a.drain": 2, "m.drain": 2,
		"bulk.arr": 2, "bulk.map": 1, "bytes.toarr": 1, "copy": 1,
		"a.oob": 2, "probe.removed": 2,
	}
	return &Profile{
		Name: "size-adversarial", W: w, MaxRoots: r.Range(1, 4), Owners: []uint64{1, 2, 0, 0x0102030405060708}[:r.Range(1, 4)],
		RootMapShare: 0.5, MapShare: 0.5, NestProb: []float64{0, 0.08, 0.2}[r.Intn(3)], MaxDepth: 3, WrapProb: 0.12,
		LargeProb: []float64{0.02, 0.08, 0.2}[r.Intn(3)], BoundaryProb: []float64{0.2, 0.45, 0.7}[r.Intn(3)],
		CompositeProb: []float64{0, 0.3, 0.8}[r.Intn(3)], KeyUniverse: []int{12, 60, 200}[r.Intn(3)], NestedTargetBias: 0.3, KeepProb: 0.1, ReattachProb: 0.03,
		MaxElems: []int{10, 50, 150, 400}[r.Pick([]int{1, 3, 3, 1})], GrowBias: 0.5, ChildInit: 5, LongKeyProb: 0.08,
		DigSpec: func(r *Rng) *DigesterSpec {
			if r.Chance(0.6) {
				return nil
			}
			return &DigesterSpec{Levels: r.Range(1, 4), Alpha: [4]uint64{[]uint64{0, 0, 64, 8}[r.Intn(4)], []uint64{0, 4}[r.Intn(2)], 0, 0}, Salt: r.U64()}
		},
	}
}

// durableReach checks reachability on the durable registers alone (what a fresh reader sees after a commit).
func (w *World) durableReach() *Violation {
	view, rvx := BuildView(w.Ledger.Clone())
	if rvx != nil {
		return w.viol(rvx.class, "%s", rvx.msg)
	}
	var roots []RegID
	for _, r := range w.Model.Roots() {
		if !r.Volatile {
			roots = append(roots, r.VID)
		}
	}
	if _, rvx := view.CheckReachability(roots); rvx != nil {
		return w.viol(rvx.class, "after commit, durable registers: %s", rvx.msg)
	}
	w.Stats.Inc("reach.durable-checked")
	return nil
}

func regProp(id, level, rule string, verdict []string, which regWhich, nontrivial func(w *World, run *Stats, levels, slabs int) bool, expected []string) {
	stdProp(&PropSpec{ID: id, Level: level, Verdict: verdict, Rule: rule, ExpectedReach: expected}, stdHooks{
		config:  func(r *Rng, tier string) Config { return baseConfig(r, "size-adversarial", tier) },
		profile: func(r *Rng, cfg Config) *Profile {
			p := sizeAdversarialProfile(r, cfg)
			if r.Sub("nested-mix").Chance(0.3) {
				// nesting-centred histories (records of one composite type side by side, children mutated through
				// handles after reloads): the register-level oracles see the layouts those histories produce
				p = nestedProfile(r, cfg)
				p.W["a.oob"], p.W["dispose"] = 1, 1
			}
			if r.Sub("wide-types").Chance(0.25) {
				// many distinct type infos side by side: the shared type-info table of one slab grows past the
				// indexes that fit the short CBOR forms, and type infos themselves take two encoded sizes
				p.TypeRange = 60
			}
			if id == "C05" || id == "C06" {
				// a mutation that fails half-way (the value cannot produce its storable) is an operation too:
				// the tree and its reported sizes are judged right after it
				p.W["failstor"] = 2
			}
			if id == "C09" {
				// some commits meet a failing ledger write or delete on their first attempt and are retried: a
				// deletion forgotten after a rejected delete leaves a register nobody references
				p.CommitFaultProb = []float64{0, 0.15, 0.4}[r.Sub("commit-faults").Intn(3)]
			}
			return p
		},
		setup: func(w *World) {
			if id == "C05" || id == "C06" {
				w.CheckNow = func(w *World) *Violation {
					if v := w.regCheck(which); v != nil {
						return v
					}
					if which.structure {
						return w.accessTraversal()
					}
					return nil
				}
			}
			if which.reach {
				w.AfterStep = func(w *World, st *Step) *Violation {
					if st.Op == "commit" || st.Op == "reopen" {
						return w.durableReach()
					}
					return nil
				}
			}
		},
		check: func(w *World, final bool) *Violation {
			if v := w.regCheck(which); v != nil {
				return v
			}
			if which.structure {
				// model-free: inside the library, access by position / key and sequential traversal agree
				if v := w.accessTraversal(); v != nil {
					return v
				}
			}
			// keep the model in step with the library; divergences here are cut, not verdicts
			return w.DeepLive(cmpOpts{})
		},
		nontrivial: nontrivial,
	})
}

func init() {
	defer func() {
		// the many-child-maps scenario (see props_crash.go): on the unchanged tree its commit is refused (a C03
		// finding, not a C07 matter); should the encoder ever accept it, the content read back must be right
		Props["C07"].Directed = append(Props["C07"].Directed, directedManyChildMaps, directedManyCompactMaps, directedSharedTypeInfos)
		Props["C06"].Directed = append(Props["C06"].Directed, directedSharedTypeInfos)
	}()
	regProp("C05", "exploration",
		"size-adversarial histories (boundary-biased element sizes, grow/shrink at both ends and in the middle, nested and large values, collision-prone digesters) at swarm slab sizes; after every stride the view a commit would leave is parsed by the independent register parser and checked for size band, per-element limits, child headers, sibling links and digest order, and - model-free, on the live containers - every element a traversal yields must be what the lookup by its position / key returns; non-trivial = a tree of height >= 2 with >= 3 slabs was checked and both insertions and removals happened; distinct by trace hash",
		[]string{"struct.", "reg.parse", "witness.verify"},
		regWhich{structure: true, witness: true},
		func(w *World, run *Stats, levels, slabs int) bool {
			return levels >= 2 && slabs >= 3 && run.C["op.a.remove"]+run.C["op.m.remove"] > 0
		},
		[]string{"reach.tree-height>=3", "reach.inlined-children", "reach.external-group", "reach.large-value"})

	regProp("C06", "exploration",
		"same size-adversarial workload with prefix-swapping transitions (root<->non-root, inlined<->standalone, single element<->group, wrappers, set-type); for every register of the view: reported size vs bytes written minus extra-data and shared sections, permitted savings only (16-byte empty sibling link, compact-map hoisting), decoded size equals in-memory size; non-trivial as C05; distinct by trace hash",
		[]string{"size.", "reg.parse", "reg.decode"},
		regWhich{sizes: true},
		func(w *World, run *Stats, levels, slabs int) bool { return slabs >= 3 },
		[]string{"reach.inlined-children", "reach.compact-encoding", "reach.external-group"})

	regProp("C07", "exploration",
		"always-on monitor over every register of the view produced by the size-adversarial workload (nested inlined arrays/maps/compact maps, shared type infos, collision groups, large-value slabs): decode+encode identity, identity of the decoded slab, head flags vs parsed content, and the content read back from the registers alone vs the model; no fault is needed to decide it (see DESIGN section 10); non-trivial = registers with inlined children were checked; distinct by trace hash",
		[]string{"rt.", "flag.", "reg.parse", "reg.decode"},
		regWhich{roundtrip: true, flags: true, content: true},
		func(w *World, run *Stats, levels, slabs int) bool { return run.C["reach.inlined-children"] > 0 },
		[]string{"reach.inlined-children", "reach.compact-encoding", "reach.external-group", "reach.large-value", "reach.type-table>=25", "reach.record-fields>=32"})

	regProp("C09", "exploration",
		"histories in which the driver disposes of every value handed back (recursive pop + removal of referenced slabs) crossing large-value, inline<->standalone, collision-group, merge and promotion lifecycles; some commits meet a failing ledger write or delete and are retried; after every stride the register set of the view (and after every commit the durable register set alone) must equal the set reachable from the live roots by the independent parser, each non-root referenced once, one owner per tree; non-trivial = a removal or overwrite returned a slab reference that was disposed of and >= 3 slabs existed; distinct by trace hash",
		[]string{"reach.", "dispose", "reg.parse"},
		regWhich{reach: true},
		func(w *World, run *Stats, levels, slabs int) bool { return run.C["dispose.slabref"] > 0 && slabs >= 3 },
		[]string{"reach.external-group", "reach.large-value", "dispose.slabref", "child.disposed"})
}

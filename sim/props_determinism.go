package sim

// C04: ledger state is a deterministic function of the operation history.

import (
	"crypto/sha256"
	"encoding/binary"
	"encoding/hex"
	"encoding/json"
	"fmt"
	"sort"
)

// ExecVariant re-executes a trace with everything the result must not depend on varied.
type ExecVariant struct {
	Workers  int     `json:"workers,omitempty"`  // override of every commit's worker count (0 = as recorded)
	GCProb   float64 `json:"gc_prob,omitempty"`  // pool flush (runtime.GC) before a step
	Seed     uint64  `json:"seed,omitempty"`
	Sched    string  `json:"sched,omitempty"`    // controlled worker schedule policy ("" = free running)
	FailEncode int   `json:"fail_encode,omitempty"` // the k-th element Encode call of every deterministic commit fails once (the commit is then retried)
	Flip     bool    `json:"flip,omitempty"`     // every commit uses the other flavour: the order-relaxed commit may differ from the deterministic one only in the order of its writes
	FreeOrder bool   `json:"free_order,omitempty"` // the order-relaxed commit iterates its write set in Go's own (randomised) map order: the job-order hook is off
	Elem     int     `json:"elem,omitempty"`     // element-granular worker yields: park at every Elem-th callback inside a worker job (0 = job granularity only)
}

func (v ExecVariant) String() string { b, _ := json.Marshal(v); return string(b) }

type commitPoint struct {
	Step     int
	Flavour  string
	State    string   // hash of all registers after the commit
	Writes   []string // "id:hash" in issue order
}

func ledgerDigest(l *SimLedger) string {
	h := sha256.New()
	var b [16]byte
	for _, id := range l.SortedIDs() {
		binary.BigEndian.PutUint64(b[:], id.Owner)
		binary.BigEndian.PutUint64(b[8:], id.Index)
		h.Write(b[:])
		binary.BigEndian.PutUint64(b[:8], uint64(len(l.Regs[id])))
		h.Write(b[:8])
		h.Write(l.Regs[id])
	}
	return hex.EncodeToString(h.Sum(nil)[:12])
}

// execForDigest runs the trace and records every commit point.
func execForDigest(tr *Trace, variant ExecVariant, stats *Stats) ([]commitPoint, []string, *Violation) {
	w := NewWorld(tr.Config, stats)
	r := NewRng(variant.Seed).Sub("variant")
	if variant.FreeOrder {
		orderHookOff = true
		defer func() { orderHookOff = false }()
		stats.Inc("det.free-map-order-executions")
	}
	var points []commitPoint
	for i := range tr.Steps {
		st := tr.Steps[i]
		w.StepNo = i
		if variant.GCProb > 0 && r.Chance(variant.GCProb) {
			runtimeGC()
			stats.Inc("pool.flush")
		}
		isCommit := st.Op == "commit" || st.Op == "reopen"
		logStart := len(w.Ledger.Log)
		if isCommit && variant.Workers > 0 {
			st.Workers = variant.Workers
		}
		if isCommit && variant.Flip {
			if flavourName(st.Flavour) == "fc" {
				st.Flavour = "nfc"
			} else {
				st.Flavour = "fc"
			}
		}
		var v *Violation
		if isCommit && variant.FailEncode > 0 && flavourName(st.Flavour) == "fc" {
			// a commit rejected by an encoder error: the deterministic commit encodes everything before it
			// writes anything, so the registers after the failed attempt must not depend on the variant either
			w.Ctl.Reset()
			w.Ctl.FailAt["encode"] = variant.FailEncode
			fired0 := w.Ctl.Fired["encode"]
			w.Ledger.BeginPhase("commit-failing", true)
			err := w.commitOnce("fc", st.Workers)
			w.Ledger.BeginPhase("op", false)
			fired := w.Ctl.Fired["encode"] > fired0
			w.Ctl.Reset()
			if fired {
				stats.Inc("fault.callback.encode")
				if err == nil {
					return points, w.Results, w.viol("det.outcome", "deterministic commit whose encoder failed returned no error")
				}
				points = append(points, commitPoint{Step: i, Flavour: "fc-failed", State: ledgerDigest(w.Ledger)})
			} else if err != nil {
				return points, w.Results, w.viol("commit.error", "commit failed without the injected fault firing: %v", err)
			}
			logStart = len(w.Ledger.Log)
		}
		if isCommit && variant.Sched != "" {
			v = w.execCommitScheduled(&st, variant, r)
		} else {
			v = w.execGuarded(&st)
		}
		if v != nil {
			return points, w.Results, v
		}
		if isCommit {
			cp := commitPoint{Step: i, Flavour: flavourName(st.Flavour), State: ledgerDigest(w.Ledger)}
			for _, e := range w.Ledger.Log[logStart:] {
				if e.Kind == IOSet || e.Kind == IODelete {
					cp.Writes = append(cp.Writes, fmt.Sprintf("%s:%s:%x", e.Kind, e.ID, e.Hash))
				}
			}
			points = append(points, cp)
		}
	}
	return points, w.Results, nil
}

// execCommitScheduled is replaced by the scheduler (sched.go) when it is linked in.
func (w *World) execCommitScheduled(st *Step, variant ExecVariant, r *Rng) *Violation {
	if scheduledCommit != nil {
		return scheduledCommit(w, st, variant, r)
	}
	return w.execGuarded(st)
}

var scheduledCommit func(w *World, st *Step, variant ExecVariant, r *Rng) *Violation

func comparePoints(a, b []commitPoint, what string) *Violation {
	if len(a) != len(b) {
		return &Violation{Class: "det.commits", Msg: fmt.Sprintf("number of commit points differs under %s: %d vs %d", what, len(a), len(b))}
	}
	for i := range a {
		x, y := a[i], b[i]
		if x.State != y.State {
			return &Violation{Class: "det.bytes", Step: x.Step, Msg: fmt.Sprintf("registers after the commit at step %d differ under %s (%s vs %s)", x.Step, what, x.State, y.State)}
		}
		if x.Flavour == "fc-failed" {
			continue
		}
		if x.Flavour != y.Flavour {
			// the two executions used different commit flavours: same set of writes and deletions, order free
			xs := append([]string(nil), x.Writes...)
			ys := append([]string(nil), y.Writes...)
			sort.Strings(xs)
			sort.Strings(ys)
			if fmt.Sprint(xs) != fmt.Sprint(ys) {
				return &Violation{Class: "det.writes", Step: x.Step, Msg: fmt.Sprintf("the commit at step %d issues a different set of writes / deletions as a deterministic and as an order-relaxed commit (%s): %d vs %d", x.Step, what, len(xs), len(ys))}
			}
			continue
		}
		if x.Flavour == "fc" {
			if len(x.Writes) != len(y.Writes) {
				return &Violation{Class: "det.writes", Step: x.Step, Msg: fmt.Sprintf("deterministic commit at step %d issued %d vs %d writes under %s", x.Step, len(x.Writes), len(y.Writes), what)}
			}
			for j := range x.Writes {
				if x.Writes[j] != y.Writes[j] {
					return &Violation{Class: "det.write-order", Step: x.Step, Msg: fmt.Sprintf("deterministic commit at step %d: write %d is %s vs %s under %s", x.Step, j, x.Writes[j], y.Writes[j], what)}
				}
			}
		} else {
			xs := append([]string(nil), x.Writes...)
			ys := append([]string(nil), y.Writes...)
			sort.Strings(xs)
			sort.Strings(ys)
			if fmt.Sprint(xs) != fmt.Sprint(ys) {
				return &Violation{Class: "det.writes", Step: x.Step, Msg: fmt.Sprintf("order-relaxed commit at step %d issued a different set of writes under %s", x.Step, what)}
			}
		}
	}
	return nil
}

func runDigest(points []commitPoint) string {
	h := sha256.New()
	for _, p := range points {
		fmt.Fprintf(h, "%d|%s|%s|", p.Step, p.Flavour, p.State)
		if p.Flavour == "fc" {
			for _, w := range p.Writes {
				h.Write([]byte(w))
			}
		}
	}
	return hex.EncodeToString(h.Sum(nil)[:12])
}

func determinismProfile(r *Rng, cfg Config) *Profile {
	p := sizeAdversarialProfile(r, cfg)
	p.Name = "determinism"
	// owners whose numeric order differs from creation order; no temporary owner (volatile by definition)
	p.Owners = [][]uint64{{0x0900000000000001, 2, 0x0102030405060708}, {3, 1}, {0xffffffffffffff01, 0x01}}[r.Intn(3)]
	p.W["commit"] = 7
	p.W["reopen"] = 2
	p.W["crash"] = 1
	p.W["gc"] = 1
	p.CompositeProb = []float64{0, 0.4, 0.9}[r.Intn(3)]
	return p
}

func init() {
	ps := &PropSpec{
		ID: "C04", Level: "exploration",
		Verdict: []string{"det.", "commit.order"},
		Rule: "one generated history (multi-owner worlds whose owner order differs from creation order, allocator pre-advanced across byte boundaries, commits of both flavours, reopen, crash, compact encoding on/off) is re-executed under variants that must not matter: worker counts {1,2,3,8,64}, pool flushes (runtime.GC) at random steps, repeated in-process executions (fresh Go map iteration orders; two variants per history also let the order-relaxed commit walk its write set in Go's own map order), a variant in which every commit uses the other flavour (same set of writes and deletions, same bytes), a deterministic commit rejected by an encoder failure, temporary-owner slabs pending next to owned ones in a third of the histories, controlled worker schedules at job and element granularity (seeded scheduler over testing/synctest), and - by the orchestrator - the same seeds in fresh OS processes under different GOMAXPROCS; at every commit point the full register state must be byte-identical, the deterministic commit must issue the identical write sequence in strictly ascending (owner,index) order, the order-relaxed commit the identical write set. Non-trivial = >= 2 commits each writing >= 3 registers; distinct by trace hash",
		ExpectedReach: []string{"variant.workers", "variant.gc", "variant.repeat", "pool.flush", "commit.nfc", "commit.fc"},
	}
	type aux struct {
		Variant ExecVariant `json:"variant"`
	}
	pair := func(tr *Trace, variant ExecVariant, agg *Stats) (*Violation, []commitPoint) {
		base, _, v := execForDigest(tr, ExecVariant{FailEncode: variant.FailEncode}, NewStats())
		if v != nil {
			if v.Class == "commit.order" {
				return v, base // the write-order monitor is a verdict of this property in any execution
			}
			return &Violation{Class: "base." + v.Class, Step: v.Step, Msg: v.Msg}, base
		}
		other, _, v := execForDigest(tr, variant, agg)
		if v != nil {
			if v.Class == "commit.order" {
				return v, base
			}
			return &Violation{Class: "det.outcome", Step: v.Step, Msg: fmt.Sprintf("history passes in the base execution but fails under %s: [%s] %s", variant, v.Class, v.Msg)}, base
		}
		return comparePoints(base, other, "variant "+variant.String()), base
	}
	ps.Run = func(ps *PropSpec, seed uint64, tier string, agg *Stats) *RunResult {
		r := NewRng(seed)
		cfg := baseConfig(r.Sub("config"), "determinism", tier)
		cfg.MaxSteps = r.Sub("len").Range(20, 140)
		if r.Sub("hip").Chance(0.25) {
			cfg.HipShift = uint(r.Sub("hip").Range(1, 3)) // deeper digest levels of the pooled default digester come into play
		}
		tr := &Trace{Property: ps.ID, Seed: seed, Config: cfg}
		run := NewStats()
		w := NewWorld(cfg, run)
		// pre-advance allocators so that slab indexes cross byte boundaries
		ar := r.Sub("alloc")
		pre := []uint64{0, 0, 250, 65530, 1<<32 - 3}[ar.Intn(5)]
		dprof := determinismProfile(r.Sub("profile"), cfg)
		if r.Sub("temp").Chance(0.3) {
			// temporary-owner slabs pending next to owned stores and deletions (they take part in the commits'
			// bookkeeping although they are never written)
			dprof.Owners = append(dprof.Owners, 0)
		}
		gen := NewGen(r.Sub("workload"), w, dprof)
		if pre > 0 {
			tr.Steps = append(tr.Steps, Step{Op: "prealloc", N: int(pre)})
			w.execGuarded(&tr.Steps[0])
		}
		res := &RunResult{Seed: seed, Trace: tr}
		for i := len(tr.Steps); i < cfg.MaxSteps; i++ {
			st := gen.Next()
			tr.Steps = append(tr.Steps, st)
			w.StepNo = i
			if v := w.execGuarded(&st); v != nil {
				if ps.isVerdict(v.Class) {
					res.Violation = v
				} else {
					res.Cut = v
				}
				break
			}
		}
		tr.Steps = append(tr.Steps, Step{Op: "commit", Flavour: "fc", Workers: 2})
		res.Steps = len(tr.Steps)
		res.Hash = traceHash(tr)
		if res.Cut != nil || res.Violation != nil {
			return res
		}
		vr := r.Sub("variants")
		variants := []ExecVariant{
			{Workers: []int{1, 2, 3, 8, 64}[vr.Intn(5)], Seed: vr.U64()},
			{GCProb: 0.15, Seed: vr.U64()},
			{Seed: vr.U64(), FreeOrder: true}, // plain repetition with the library's own map iteration orders everywhere
			{Workers: []int{1, 2, 8}[vr.Intn(3)], Seed: vr.U64(), FreeOrder: true},
			{Workers: []int{1, 2, 4}[vr.Intn(3)], Seed: vr.U64(), Flip: true},
			{Workers: []int{1, 1, 2, 8}[vr.Intn(4)], FailEncode: vr.Range(1, 40), Seed: vr.U64()},
		}
		if tier == "thorough" {
			variants = append(variants, ExecVariant{Workers: []int{1, 2, 3, 8, 64}[vr.Intn(5)], GCProb: 0.3, Seed: vr.U64()}, ExecVariant{Seed: vr.U64(), FreeOrder: true})
		}
		if scheduledCommit != nil {
			variants = append(variants, ExecVariant{Sched: []string{"random", "last", "first", "rr"}[vr.Intn(4)], Workers: []int{2, 3, 8}[vr.Intn(3)], Seed: vr.U64(), Elem: []int{0, 1, 2, 5}[vr.Intn(4)]})
		}
		var base []commitPoint
		for _, variant := range variants {
			switch {
			case variant.Sched != "":
				agg.Inc("variant.sched")
			case variant.FailEncode > 0:
				agg.Inc("variant.fail-encode")
			case variant.Workers > 0:
				agg.Inc("variant.workers")
			case variant.GCProb > 0:
				agg.Inc("variant.gc")
			default:
				agg.Inc("variant.repeat")
			}
			v, b := pair(tr, variant, agg)
			base = b
			if v != nil {
				if ps.isVerdict(v.Class) {
					a, _ := json.Marshal(aux{variant})
					tr.Aux = a
					res.Violation = v
				} else {
					res.Cut = v
				}
				return res
			}
		}
		big := 0
		for _, p := range base {
			if len(p.Writes) >= 3 {
				big++
			}
		}
		res.NonTrivial = big >= 2
		res.Digest = runDigest(base)
		res.Events = len(tr.Steps) * (len(variants) + 1)
		agg.Add("events.steps", len(tr.Steps))
		return res
	}
	ps.Replay = func(ps *PropSpec, tr *Trace, agg *Stats) *RunResult {
		var a aux
		_ = json.Unmarshal(tr.Aux, &a)
		res := &RunResult{Seed: tr.Seed, Trace: tr, Steps: len(tr.Steps), Hash: traceHash(tr)}
		// nondeterminism may need several repetitions to show (DESIGN 6): try a few times
		for i := 0; i < 4; i++ {
			v, base := pair(tr, a.Variant, agg)
			res.Digest = runDigest(base)
			if v != nil {
				if ps.isVerdict(v.Class) {
					res.Violation = v
				} else {
					res.Cut = v
				}
				return res
			}
		}
		return res
	}
	Props[ps.ID] = ps

	extraOps["prealloc"] = func(w *World, st *Step) *Violation {
		for _, o := range []uint64{1, 2, 3, 0x0102030405060708, 0x0900000000000001, 0xffffffffffffff01} {
			w.Ledger.Alloc[o] += uint64(st.N)
		}
		return nil
	}
}

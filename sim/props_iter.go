package sim

// C13: every iterator yields exactly the container's elements once, in canonical order.

func init() {
	stdProp(&PropSpec{
		ID: "C13", Level: "exploration",
		Verdict: []string{"iter.", "order", "deep.order", "deep.iter", "panic"},
		Rule: "container states taken at random points of mixed histories (multi-level trees after fills/drains, collision groups from adversarial digesters, nested and large values): every iterator flavour (read-only, mutable, keys, values, every iterator-object constructor drained with Next / NextKey / NextValue or a rotation of the three, ranges with boundary-biased and invalid bounds, loaded-values; containers of the temporary owner, copies and batch-built containers included), mutable iteration with overwrite of the current element and mutation of nested children (which may split the slab under the cursor), read-only element mutation (must be refused), loaded-value iteration after commit+eviction with a PRNG-chosen subset of slabs re-loaded, and reverse-order bulk pop; sequences compared with the model order (arrays: index order; maps: ascending digest sequence computed independently, insertion order among full collisions). Non-trivial = iterations over a container of >= 3 slabs incl. a range, a mutable-with-mutation and a partially loaded one; distinct by trace hash",
		ExpectedReach: []string{"iter.ro", "iter.mut", "iter.range", "iter.rorange", "iter.badrange", "iter.keys", "iter.values", "iter.loaded-partial", "iter.loaded-all", "iter.child-mutated", "iter.current-overwritten", "iter.readonly-mutation-attempt", "iter.range-boundary", "reach.inline-group", "reach.last-level-list"},
	}, stdHooks{
		config: func(r *Rng, tier string) Config {
			c := baseConfig(r, "iter", tier)
			if r.Chance(0.25) {
				c.HipShift = uint(r.Range(1, 3)) // collision groups under the library's pooled default digester
			}
			return c
		},
		profile: func(r *Rng, cfg Config) *Profile {
			p := sizeAdversarialProfile(r, cfg)
			p.Name = "iter"
			p.Owners = [][]uint64{{1}, {1, 2}, {1, 0}, {0, 2}}[r.Intn(4)] // 0 = the temporary owner (never persisted, enumerable like any other)
			p.KeepProb = 0
			p.W["iter"] = 30
			p.W["iter.mut"] = 8
			p.W["iter.romut"] = 1
			p.W["iter.loaded"] = 5
			p.W["popall"] = 3
			p.W["a.fill"], p.W["m.fill"] = 4, 4
			p.W["copy"], p.W["bulk.map"], p.W["bulk.arr"] = 3, 2, 1 // enumerate copies and batch-built containers too
			p.W["failstor"] = 3                                     // ... and containers one of whose mutations failed half-way
			p.DigSpec = func(r *Rng) *DigesterSpec {
				if r.Chance(0.4) {
					return nil
				}
				return &DigesterSpec{Levels: r.Range(1, 4), Alpha: [4]uint64{[]uint64{0, 64, 8, 3}[r.Intn(4)], []uint64{0, 4, 2}[r.Intn(3)], []uint64{0, 2}[r.Intn(2)], 0}, Salt: r.U64()}
			}
			return p
		},
		check: func(w *World, final bool) *Violation {
			if v := w.DeepLive(cmpOpts{order: true}); v != nil {
				return v
			}
			// reach probes for groups/lists
			return w.regCheck(regWhich{})
		},
		nontrivial: func(w *World, run *Stats, levels, slabs int) bool {
			return slabs >= 3 && run.C["iter.range"]+run.C["iter.rorange"] > 0 && run.C["iter.child-mutated"]+run.C["iter.current-overwritten"] > 0
		},
	})
}

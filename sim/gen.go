package sim

// Seeded workload generator.  It proposes the next step from (PRNG, model state);
// the step is recorded in the trace and handed to the interpreter.

import (
	"sort"

	"github.com/onflow/atree"
)

type Profile struct {
	Name     string
	W        map[string]int // op weights
	MaxRoots int
	Owners   []uint64 // owner universe (0 = temporary owner)
	RootMapShare float64 // share of maps among new roots
	MapShare float64  // share of maps among new child containers
	NestProb float64  // a generated value is a new child container
	MaxDepth int
	WrapProb float64
	LargeProb    float64
	BoundaryProb float64
	CompositeProb float64
	TypeRange     int // distinct type-info numbers drawn (default 4); wide ranges fill the shared type-info table of a slab past its one-byte indexes
	KeyUniverse  int
	NestedTargetBias float64 // probability to target a nested container when one exists
	KeepProb  float64 // keep detached children alive
	ReattachProb float64
	CommitFaultProb float64 // share of generated commits whose first attempt meets a failing ledger write / delete (then retried)
	MaxElems  int // soft cap per container: above it removals are favoured
	GrowBias  float64
	ChildInit int // max initial elements of a new child
	DigSpec   func(r *Rng) *DigesterSpec // digester for new root maps (nil = default)
	LongKeyProb float64
}

type Gen struct {
	R       *Rng
	W       *World
	P       *Profile
	nextCID int
	nextStr int
	keys    []VSpec

	detachedOnce map[int]bool
	templates    [][]VSpec // "record" templates: composite-typed child maps sharing one key set (compact encoding)
}

func NewGen(r *Rng, w *World, p *Profile) *Gen {
	g := &Gen{R: r, W: w, P: p, nextCID: 1, nextStr: 1}
	n := p.KeyUniverse
	if n <= 0 {
		n = 32
	}
	kr := r.Sub("keys")
	for i := 0; i < n; i++ {
		g.keys = append(g.keys, g.genKey(kr, i))
	}
	tr := r.Sub("templates")
	for t := 0; t < 4; t++ {
		var ks []VSpec
		if t == 3 {
			// a wide record: 7..12 short, distinct field names, so that the digests of the shared key list no longer
			// fit the encoder's 64-byte scratch area (8 digests) in some runs and exactly fill it in others
			nk := 7 + tr.Intn(6)
			if wr := r.Sub("very-wide-record"); wr.Chance(0.3) {
				// ... and in some runs around the counts at which the CBOR heads of the shared key list and of its
				// digest string change width (24 entries; 32 digests = 256 bytes)
				nk = []int{23, 24, 25, 31, 32, 33}[wr.Intn(6)]
			}
			for j := 0; j < nk; j++ {
				ks = append(ks, VSpec{S: &[2]int{5000 + t*10 + j, tr.Range(5, 6)}})
			}
			g.templates = append(g.templates, ks)
			continue
		}
		for j := 0; j < 1+tr.Intn(5); j++ {
			ks = append(ks, VSpec{S: &[2]int{5000 + t*10 + j, tr.Range(2, 12)}})
		}
		g.templates = append(g.templates, ks)
	}
	return g
}

func (g *Gen) cid() int { g.nextCID++; return g.nextCID - 1 }
func (g *Gen) sid() int { g.nextStr++; return g.nextStr - 1 }

func (g *Gen) genKey(r *Rng, i int) VSpec {
	maxKey := int(atree.MaxInlineMapKeySize())
	var s VSpec
	switch r.Pick([]int{5, 4, 2, 1}) {
	case 0:
		widths := []uint64{uint64(i), 24 + uint64(i), 256 + uint64(i)*7, 70000 + uint64(i)*13, 1<<33 + uint64(i)}
		s = VSpec{U: u64p(widths[r.Intn(len(widths))])}
	case 1:
		s = VSpec{S: &[2]int{1000 + i, r.Range(3, 24)}}
	case 2:
		// near the key inline limit
		s = VSpec{S: &[2]int{1000 + i, maxKey - 3 + r.Intn(5)}}
	default:
		s = VSpec{U: u64p(uint64(i) * 1000003)}
	}
	if r.Chance(g.P.LongKeyProb) {
		s = VSpec{S: &[2]int{1000 + i, maxKey + r.Range(1, 40)}}
	}
	if r.Chance(0.1) {
		s = VSpec{Some: &VSpec{U: s.U, S: s.S}}
	}
	return s
}

func (g *Gen) genType() TypeInfo {
	n := 4
	if g.P.TypeRange > 0 {
		n = g.P.TypeRange
	}
	return TypeInfo{Comp: g.R.Chance(g.P.CompositeProb), N: uint64(g.R.Intn(n))}
}

// genScalar generates a scalar whose encoded size is chosen relative to limit
// (the inline limit of the slot it is meant for).
func (g *Gen) genScalar(limit int) VSpec {
	r := g.R
	p := g.P
	x := float64(r.U64()>>11) / float64(1<<53)
	switch {
	case x < p.LargeProb:
		// too large to be inlined: becomes a separate slab
		hi := limit * 3
		if r.Chance(0.15) {
			hi = int(g.W.Cfg.Slab)*2 + 50
		}
		return VSpec{S: &[2]int{g.sid(), r.Range(limit+1, hi)}}
	case x < p.LargeProb+p.BoundaryProb:
		// encoded size within +-3 of the limit, or of half the slab
		target := limit
		if r.Chance(0.2) {
			target = int(g.W.Cfg.Slab) / 2
		}
		enc := target - 3 + r.Intn(7)
		n := enc - 2 // head of a string of 24..255 bytes is 2 bytes
		if enc > 258 {
			n = enc - 3
		}
		if n < 1 {
			n = 1
		}
		return VSpec{S: &[2]int{g.sid(), n}}
	}
	switch r.Pick([]int{4, 3, 3, 1}) {
	case 0:
		vals := []uint64{uint64(r.Intn(24)), uint64(24 + r.Intn(200)), uint64(256 + r.Intn(60000)), uint64(70000 + r.Intn(1<<20)), 1<<32 + uint64(r.Intn(1000))}
		if r.Chance(0.15) {
			// exactly on the boundaries of the CBOR integer widths
			vals = []uint64{23, 24, 255, 256, 65535, 65536, 1<<32 - 1, 1 << 32, 1<<64 - 1}
		}
		return VSpec{U: u64p(vals[r.Intn(len(vals))])}
	case 1:
		return VSpec{S: &[2]int{g.sid(), r.Range(1, 20)}}
	case 2:
		hi := limit - 3
		if hi < 21 {
			hi = 21
		}
		return VSpec{S: &[2]int{g.sid(), r.Range(20, hi)}}
	default:
		return VSpec{U: u64p(r.U64())}
	}
}

func (g *Gen) wrap(v VSpec) VSpec {
	if g.R.Chance(g.P.WrapProb) {
		inner := v
		v = VSpec{Some: &inner}
		if g.R.Chance(0.2) {
			inner2 := v
			v = VSpec{Some: &inner2}
		}
	}
	return v
}

// genValue generates a value for a slot of container target.
func (g *Gen) genValue(target *MCont, limit int) VSpec {
	depth := 0
	if target != nil {
		depth = target.Depth() + 1
	}
	if depth <= g.P.MaxDepth && g.R.Chance(g.P.NestProb) {
		return g.wrap(g.genChild(depth, limit))
	}
	if target != nil && g.R.Chance(g.P.ReattachProb) {
		// re-attach a detached container of the same owner
		var cands []int
		for _, c := range g.W.Model.Roots() {
			if c.Owner == target.Owner && c != target.Root() && (!c.IsMap || c.Dig.Kind == "default") && g.detachedOnce[c.CID] {
				cands = append(cands, c.CID)
			}
		}
		if len(cands) > 0 {
			id := cands[g.R.Intn(len(cands))]
			return g.wrap(VSpec{Ref: &id})
		}
	}
	return g.wrap(g.genScalar(limit))
}

func (g *Gen) genChild(depth, limit int) VSpec {
	n := g.R.Intn(g.P.ChildInit + 1)
	cs := &CSpec{CID: g.cid(), T: g.genType()}
	isMap := g.R.Chance(g.P.MapShare)
	if isMap && cs.T.Comp && g.R.Chance(0.7) {
		// a record: composite type with the template's full key set and small values, so that
		// sibling records share the compact encoding
		t := int(cs.T.N) % len(g.templates)
		for _, k := range g.templates[t] {
			v := g.genScalar(24)
			if v.S != nil && v.S[1] > 24 {
				v.S[1] = g.R.Range(1, 24)
			}
			if len(g.templates[t]) > 12 {
				v = VSpec{U: u64p(uint64(g.R.Intn(20)))} // very wide records stay small enough to be inlined
			}
			cs.K = append(cs.K, k)
			cs.V = append(cs.V, v)
		}
		return VSpec{Map: cs}
	}
	childLimit := int(atree.MaxInlineArrayElementSize())
	if isMap {
		childLimit = int(atree.MaxInlineMapElementSize()) / 2
	}
	used := map[int]bool{}
	for i := 0; i < n; i++ {
		var v VSpec
		if depth < g.P.MaxDepth && g.R.Chance(g.P.NestProb/2) {
			v = g.genChild(depth+1, childLimit)
		} else {
			v = g.genScalar(childLimit)
			// keep children mostly small so that they start inlined
			if v.S != nil && v.S[1] > 24 && !g.R.Chance(0.25) {
				v.S[1] = g.R.Range(1, 24)
			}
		}
		if isMap {
			ki := g.R.Intn(len(g.keys))
			if used[ki] {
				continue
			}
			used[ki] = true
			cs.K = append(cs.K, g.keys[ki])
			cs.V = append(cs.V, v)
		} else {
			cs.E = append(cs.E, v)
		}
	}
	if isMap {
		return VSpec{Map: cs}
	}
	return VSpec{Arr: cs}
}

func (g *Gen) pickTarget(wantMap, any bool) *MCont {
	var roots, nested []*MCont
	for _, id := range g.W.Model.SortedCIDs() {
		c := g.W.Model.Conts[id]
		if !any && c.IsMap != wantMap {
			continue
		}
		if c.Parent == nil {
			roots = append(roots, c)
		} else {
			nested = append(nested, c)
		}
	}
	if len(nested) > 0 && (len(roots) == 0 || g.R.Chance(g.P.NestedTargetBias)) {
		return nested[g.R.Intn(len(nested))]
	}
	if len(roots) > 0 {
		return roots[g.R.Intn(len(roots))]
	}
	return nil
}

func (g *Gen) slotLimit(c *MCont) int {
	if c.IsMap {
		return int(atree.MaxInlineMapElementSize()) / 2
	}
	return int(atree.MaxInlineArrayElementSize())
}

func (g *Gen) commitStep(op string) Step {
	ws := []int{1, 1, 2, 3, 4, 8, 64}
	fl := "fc"
	if g.R.Chance(0.3) {
		fl = "nfc"
	}
	st := Step{Op: op, Flavour: fl, Workers: ws[g.R.Intn(len(ws))]}
	if g.P.CommitFaultProb > 0 && g.R.Chance(g.P.CommitFaultProb) {
		// the ledger rejects the k-th write or delete of the first attempt; the commit is retried until it succeeds
		st.Fault = &FaultSpec{WriteAt: []int{g.R.Range(1, 8)}}
		if g.R.Chance(0.3) {
			st.Fault.WriteAt = append(st.Fault.WriteAt, g.R.Range(1, 12))
		}
	}
	return st
}

var opOrder []string

// Next proposes the next step.
func (g *Gen) Next() Step {
	r := g.R
	p := g.P
	m := g.W.Model
	nRoots := len(m.Roots())
	if nRoots == 0 {
		return g.newRoot()
	}
	ops := make([]string, 0, len(p.W))
	for k := range p.W {
		ops = append(ops, k)
	}
	sort.Strings(ops)
	ws := make([]int, len(ops))
	for i, k := range ops {
		ws[i] = p.W[k]
	}
	for try := 0; try < 20; try++ {
		op := ops[r.Pick(ws)]
		switch op {
		case "new":
			if nRoots >= p.MaxRoots {
				continue
			}
			return g.newRoot()
		case "a.append", "a.insert", "a.set", "a.remove", "a.get":
			c := g.pickTarget(false, false)
			if c == nil {
				continue
			}
			n := len(c.Elems)
			// steer size: above the soft cap favour removal; shrink phases
			if (op == "a.append" || op == "a.insert") && n >= p.MaxElems && !r.Chance(0.2) {
				op = "a.remove"
			}
			if (op == "a.remove") && n < p.MaxElems/3 && r.Chance(p.GrowBias) {
				op = "a.insert"
			}
			if n == 0 && (op == "a.set" || op == "a.remove" || op == "a.get") {
				op = "a.append"
			}
			st := Step{Op: op, C: c.CID, Pos: g.genPos(n)}
			if op == "a.append" || op == "a.insert" || op == "a.set" {
				v := g.genValue(c, g.slotLimit(c))
				st.V = &v
			}
			if op == "a.set" || op == "a.remove" {
				st.Keep = r.Chance(p.KeepProb)
			}
			g.noteDetach(c, st)
			return st
		case "a.oob":
			c := g.pickTarget(false, false)
			if c == nil {
				continue
			}
			subs := []string{"get", "set", "insert", "remove"}
			st := Step{Op: op, C: c.CID, Sub: subs[r.Intn(4)], OOB: uint64(r.Pick([]int{6, 2, 1, 1})) * uint64(1+r.Intn(3))}
			if r.Chance(0.25) {
				// absolute huge indexes, including ones that alias a valid index in 16-, 32- or 48-bit arithmetic
				small := uint64(r.Intn(1 + c.Count()))
				st.End = []uint64{1 << 31, 1 << 32, 1<<63 - 1, 1 << 63, 1<<63 + 5, ^uint64(0) - 1, ^uint64(0),
					1<<32 + small, 1<<33 + small, 1<<48 + small, 1<<16 + small, 1<<63 + small, 1<<32 + small}[r.Intn(13)]
				if st.End < uint64(c.Count()) {
					st.End = 1<<32 + small
				}
			}
			if (st.Sub == "set" || st.Sub == "insert") && r.Chance(0.3) {
				// offer a detached-and-kept container of the same owner
				var cands []int
				for _, dc := range g.W.Model.Roots() {
					if dc.Owner == c.Owner && dc != c.Root() && (!dc.IsMap || dc.Dig.Kind == "default") && g.detachedOnce[dc.CID] {
						cands = append(cands, dc.CID)
					}
				}
				if len(cands) > 0 {
					id := cands[r.Intn(len(cands))]
					st.V = &VSpec{Ref: &id}
					return st
				}
			}
			if (st.Sub == "set" || st.Sub == "insert") && r.Chance(0.6) {
				limit := g.slotLimit(c)
				v := VSpec{S: &[2]int{g.sid(), r.Range(limit+1, limit*2)}} // too large to inline
				if r.Chance(0.3) {
					v = g.genScalar(limit)
				}
				st.V = &v
			}
			return st
		case "m.set", "m.get", "m.has", "m.remove":
			c := g.pickTarget(true, false)
			if c == nil {
				continue
			}
			n := len(c.Keys)
			if op == "m.set" && n >= p.MaxElems && !r.Chance(0.2) {
				op = "m.remove"
			}
			if op == "m.remove" && n < p.MaxElems/3 && r.Chance(p.GrowBias) {
				op = "m.set"
			}
			presentBias := map[string]float64{"m.set": 0.35, "m.get": 0.7, "m.has": 0.5, "m.remove": 0.8}[op]
			var k VSpec
			if n > 0 && r.Chance(presentBias) {
				k = specOfKey(c.Keys[r.Intn(n)])
			} else if c.Type.Comp && c.Parent != nil && r.Chance(0.6) {
				t := g.templates[int(c.Type.N)%len(g.templates)]
				k = t[r.Intn(len(t))]
			} else {
				k = g.keys[r.Intn(len(g.keys))]
			}
			st := Step{Op: op, C: c.CID, K: &k}
			if op == "m.set" {
				v := g.genValue(c, g.slotLimit(c))
				st.V = &v
			}
			if op == "m.set" || op == "m.remove" {
				st.Keep = r.Chance(p.KeepProb)
			}
			g.noteDetach(c, st)
			return st
		case "probe.removed":
			return Step{Op: op, Pos: r.U64() % 1024}
		case "failstor":
			c := g.pickTarget(false, true)
			if c == nil {
				continue
			}
			v := g.genScalar(g.slotLimit(c))
			st := Step{Op: op, C: c.CID, V: &v, Pos: g.genPos(c.Count()), Sub: []string{"append", "insert", "set"}[r.Intn(3)]}
			if c.IsMap {
				var k VSpec
				if n := len(c.Keys); n > 0 && r.Chance(0.4) {
					k = specOfKey(c.Keys[r.Intn(n)])
				} else {
					k = g.keys[r.Intn(len(g.keys))]
				}
				st.K = &k
			}
			return st
		case "m.setfail":
			c := g.pickTarget(true, false)
			if c == nil || len(c.Keys) == 0 {
				continue
			}
			k := specOfKey(c.Keys[r.Intn(len(c.Keys))])
			return Step{Op: op, C: c.CID, K: &k}
		case "settype":
			c := g.pickTarget(false, true)
			if c == nil {
				continue
			}
			t := g.genType()
			return Step{Op: op, C: c.CID, T: &t}
		case "count", "reget":
			c := g.pickTarget(false, true)
			if c == nil {
				continue
			}
			st := Step{Op: op, C: c.CID}
			if op == "reget" && r.Chance(0.4) {
				st.Sub = "iter"
			}
			return st
		case "popall":
			c := g.pickTarget(false, true)
			if c == nil {
				continue
			}
			return Step{Op: op, C: c.CID}
		case "dispose":
			roots := m.Roots()
			if len(roots) < 2 {
				continue
			}
			c := roots[r.Intn(len(roots))]
			return Step{Op: op, C: c.CID}
		case "commit", "reopen":
			return g.commitStep(op)
		case "dropcache", "gc":
			return Step{Op: op}
		case "crash":
			sub := "abandon"
			if r.Chance(0.4) {
				sub = "drop"
			}
			return Step{Op: op, Sub: sub}
		default:
			if f, ok := extraGens[op]; ok {
				if st, ok := f(g); ok {
					return st
				}
				continue
			}
		}
	}
	return Step{Op: "count", C: m.Roots()[0].CID}
}

// extraGens lets other files register generators for more step kinds.
var extraGens = map[string]func(*Gen) (Step, bool){}

// detachedOnce records containers that were detached with keep (candidates for re-attachment).
func (g *Gen) noteDetach(c *MCont, st Step) {
	if !st.Keep {
		return
	}
	if g.detachedOnce == nil {
		g.detachedOnce = map[int]bool{}
	}
	var old MVal
	switch st.Op {
	case "a.set", "a.remove":
		if n := uint64(len(c.Elems)); n > 0 {
			old = c.Elems[st.Pos%n]
		}
	case "m.set", "m.remove":
		if km, ok := scalarOf(st.K); ok {
			if i := c.findKey(km); i >= 0 {
				old = c.Vals[i]
			}
		}
	}
	if ch := childOf(old); ch != nil {
		g.detachedOnce[ch.CID] = true
	}
}

func (g *Gen) genPos(n int) uint64 {
	r := g.R
	switch r.Pick([]int{4, 2, 2, 1}) {
	case 1:
		return 0 // front
	case 2:
		if n > 0 {
			return uint64(n - 1 + r.Intn(2)) // back
		}
	case 3:
		if n > 0 {
			return uint64(n / 2)
		}
	}
	return r.U64() % (1 << 32)
}

func (g *Gen) newRoot() Step {
	t := g.genType()
	owner := g.P.Owners[g.R.Intn(len(g.P.Owners))]
	st := Step{Op: "new", CID: g.cid(), Owner: owner, T: &t, Sub: "arr"}
	if g.R.Chance(g.P.RootMapShare) {
		st.Sub = "map"
		if g.P.DigSpec != nil {
			st.Dig = g.P.DigSpec(g.R)
		}
	}
	return st
}

func specOfKey(k MVal) VSpec {
	switch x := k.(type) {
	case MU64:
		return VSpec{U: u64p(uint64(x))}
	case MStr:
		return VSpec{S: strSpecOf(string(x))}
	case MSome:
		in := specOfKey(x.In)
		return VSpec{Some: &in}
	}
	panic("bad key")
}

// strSpecOf inverts strFor.
func strSpecOf(s string) *[2]int {
	id := 0
	for i := 0; i < len(s) && s[i] >= '0' && s[i] <= '9'; i++ {
		id = id*10 + int(s[i]-'0')
	}
	return &[2]int{id, len(s)}
}

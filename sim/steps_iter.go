package sim

// Iterator steps (C13): every flavour, ranges, in-iteration mutation, partially loaded containers.

import (
	"errors"
	"fmt"
	"sort"

	"github.com/onflow/atree"
)

func (w *World) iterClass(c *MCont) string { return "iter" }

// expectSeq checks a yielded sequence of values against model values.
func (w *World) expectSeq(what string, got []atree.Value, want []MVal) *Violation {
	if len(got) != len(want) {
		return w.viol("iter.count", "%s yields %d element(s), model order has %d", what, len(got), len(want))
	}
	for i := range got {
		if mmx := w.cmpValue(w.Storage, got[i], want[i], cmpOpts{}, fmt.Sprintf("%s position %d", what, i)); mmx != nil {
			return w.viol("iter.seq", "%s", mmx.msg)
		}
	}
	return nil
}

func (w *World) mapOrder(c *MCont, m *atree.OrderedMap) []int {
	cc := *c
	cc.Seed = m.Seed()
	return canonicalOrder(&cc)
}

func init() {
	extraOps["iter"] = func(w *World, st *Step) *Violation {
		c := w.Model.Conts[st.C]
		if c == nil {
			return nil
		}
		h, v := w.handle(c)
		if v != nil {
			return v
		}
		w.Stats.Inc("iter." + st.Sub)
		if c.IsMap {
			return w.iterMap(st, c, h.(*atree.OrderedMap))
		}
		return w.iterArray(st, c, h.(*atree.Array))
	}
	extraOps["iter.mut"] = func(w *World, st *Step) *Violation {
		c := w.Model.Conts[st.C]
		if c == nil {
			return nil
		}
		h, v := w.handle(c)
		if v != nil {
			return v
		}
		// nested handles are re-obtained from the iteration: drop the old lineage
		w.Model.eachChild(c, func(ch *MCont) { w.dropHandles(ch) })
		if c.IsMap {
			return w.iterMutMap(st, c, h.(*atree.OrderedMap))
		}
		return w.iterMutArray(st, c, h.(*atree.Array))
	}
	extraOps["iter.romut"] = func(w *World, st *Step) *Violation {
		c := w.Model.Conts[st.C]
		if c == nil {
			return nil
		}
		h, v := w.handle(c)
		if v != nil {
			return v
		}
		var child atree.Value
		find := func(x atree.Value) (bool, error) {
			in, _ := unwrapValue(x)
			switch in.(type) {
			case *atree.Array, *atree.OrderedMap:
				child = in
				return false, nil
			}
			return true, nil
		}
		var err error
		if c.IsMap {
			err = h.(*atree.OrderedMap).IterateReadOnlyValues(find)
		} else {
			err = h.(*atree.Array).IterateReadOnly(find)
		}
		if err != nil {
			return w.viol("iter.error", "read-only iteration of #%d failed: %v", c.CID, err)
		}
		if child == nil {
			return nil
		}
		switch x := child.(type) {
		case *atree.Array:
			err = x.Append(U64(1))
		case *atree.OrderedMap:
			_, err = x.Set(w.cmp, w.hip, U64(999999937), U64(1))
		}
		var t *atree.ReadOnlyIteratorElementMutationError
		w.Stats.Inc("iter.readonly-mutation-attempt")
		if !errors.As(err, &t) {
			return w.viol("iter.readonly-mutation", "mutating an element obtained from a read-only iterator of #%d returned %v, want ReadOnlyIteratorElementMutationError", c.CID, err)
		}
		// the library documents that the in-memory child may be left modified: abandon in-memory state
		return w.execCrash(&Step{Op: "crash", Sub: "abandon"})
	}
	extraOps["iter.loaded"] = func(w *World, st *Step) *Violation { return w.iterLoaded(st) }

	extraGens["iter"] = func(g *Gen) (Step, bool) {
		c := g.pickTarget(false, true)
		if c == nil {
			return Step{}, false
		}
		n := uint64(c.Count())
		var subs []string
		if c.IsMap {
			subs = []string{"ro", "mut", "keys", "rokeys", "values", "rovalues", "loaded", "iterobj"}
		} else {
			subs = []string{"ro", "mut", "range", "rorange", "range", "rorange", "loaded", "iterobj", "badrange"}
		}
		st := Step{Op: "iter", C: c.CID, Sub: subs[g.R.Intn(len(subs))]}
		if st.Sub == "iterobj" {
			st.N = g.R.Intn(8)
		}
		switch st.Sub {
		case "range", "rorange", "iterobj":
			// boundary-biased bounds
			a, b := uint64(g.R.Intn(int(n)+1)), uint64(g.R.Intn(int(n)+1))
			if a > b {
				a, b = b, a
			}
			switch g.R.Intn(5) {
			case 0:
				a = 0
			case 1:
				b = n
			case 2:
				b = a
			}
			st.Pos, st.End = a, b
		case "badrange":
			switch g.R.Intn(4) {
			case 3:
				// start beyond the end of the array, end inside it
				st.Pos, st.End = n+1+uint64(g.R.Intn(3)), uint64(g.R.Intn(int(n)+1))
			case 0:
				st.Pos, st.End = n+1+uint64(g.R.Intn(3)), n+1+uint64(g.R.Intn(3))+3
			case 1:
				st.Pos, st.End = 0, n+1+uint64(g.R.Intn(3))
			default:
				if n < 2 {
					st.Pos, st.End = 0, n+1
				} else {
					st.Pos, st.End = n, n-1-uint64(g.R.Intn(int(n-1)))
				}
			}
		}
		return st, true
	}
	extraGens["iter.mut"] = func(g *Gen) (Step, bool) {
		c := g.pickTarget(false, true)
		if c == nil || c.Count() == 0 {
			return Step{}, false
		}
		v := g.genScalar(g.slotLimit(c))
		return Step{Op: "iter.mut", C: c.CID, N: g.R.Range(1, 4), Sub: []string{"overwrite", "child", "both"}[g.R.Intn(3)], V: &v, Pos: g.R.U64() % 1000}, true
	}
	extraGens["iter.romut"] = func(g *Gen) (Step, bool) {
		c := g.pickTarget(false, true)
		if c == nil {
			return Step{}, false
		}
		return Step{Op: "iter.romut", C: c.CID}, true
	}
	extraGens["iter.loaded"] = func(g *Gen) (Step, bool) {
		roots := g.W.Model.Roots()
		var cands []*MCont
		for _, r := range roots {
			if !r.Volatile {
				cands = append(cands, r)
			}
		}
		if len(cands) == 0 {
			return Step{}, false
		}
		c := cands[g.R.Intn(len(cands))]
		return Step{Op: "iter.loaded", C: c.CID, N: g.R.Intn(101), Pos: g.R.U64() % (1 << 32)}, true
	}
}

func (w *World) iterArray(st *Step, c *MCont, a *atree.Array) *Violation {
	what := fmt.Sprintf("array #%d %s iteration", c.CID, st.Sub)
	var got []atree.Value
	collect := func(v atree.Value) (bool, error) { got = append(got, v); return true, nil }
	n := uint64(len(c.Elems))
	var err error
	want := c.Elems
	switch st.Sub {
	case "ro":
		err = a.IterateReadOnly(collect)
	case "mut":
		err = a.Iterate(collect)
	case "loaded":
		err = a.IterateReadOnlyLoadedValues(collect)
		// everything the live storage has loaded is a subsequence; equality only if all is loaded,
		// which this step does not control: judge as subsequence
		if err == nil {
			return w.expectSubsequence(what, got, want)
		}
	case "iterobj":
		// iterator objects: every constructor (st.N picks one), drained with Next
		s, e := st.Pos, st.End
		if s > n {
			s = n
		}
		if e > n {
			e = n
		}
		if s > e {
			s, e = e, s
		}
		var it atree.ArrayIterator
		var e0 error
		wantMut, loaded := false, false
		switch st.N % 8 {
		case 0:
			it, e0 = a.ReadOnlyIterator()
		case 1:
			it, e0 = a.Iterator()
			wantMut = true
		case 2:
			it, e0 = a.RangeIterator(s, e)
			want = c.Elems[s:e]
			wantMut = true
		case 3:
			it, e0 = a.ReadOnlyRangeIterator(s, e)
			want = c.Elems[s:e]
		case 4:
			it, e0 = a.ReadOnlyLoadedValueIterator()
			loaded = true
		case 5:
			it, e0 = a.ReadOnlyIteratorWithMutationCallback(func(atree.Value) {})
		case 6:
			it, e0 = a.ReadOnlyRangeIteratorWithMutationCallback(s, e, func(atree.Value) {})
			want = c.Elems[s:e]
		default:
			it, e0 = a.ReadOnlyRangeIterator(0, n)
		}
		w.Stats.Inc(fmt.Sprintf("iter.obj.array.%d", st.N%8))
		if e0 != nil {
			return w.viol("iter.error", "%s (constructor %d): %v", what, st.N%8, e0)
		}
		if it.CanMutate() != wantMut {
			return w.viol("iter.flavour", "%s (constructor %d): CanMutate=%v, want %v", what, st.N%8, it.CanMutate(), wantMut)
		}
		for {
			v, e := it.Next()
			if e != nil {
				err = e
				break
			}
			if v == nil {
				break
			}
			got = append(got, v)
			if len(got) > len(c.Elems)+1 {
				return w.viol("iter.count", "%s (constructor %d) yields more than %d elements", what, st.N%8, len(c.Elems))
			}
		}
		if err == nil {
			// an exhausted iterator stays exhausted
			if v, e := it.Next(); e != nil || v != nil {
				return w.viol("iter.count", "%s (constructor %d): Next after the end returned (%v, %v)", what, st.N%8, v, e)
			}
		}
		if err == nil && loaded {
			return w.expectSubsequence(what, got, want)
		}
	case "range", "rorange":
		s, e := st.Pos, st.End
		if s > n {
			s = n
		}
		if e > n {
			e = n
		}
		if s > e {
			s, e = e, s
		}
		if st.Sub == "range" {
			err = a.IterateRange(s, e, collect)
		} else {
			err = a.IterateReadOnlyRange(s, e, collect)
		}
		want = c.Elems[s:e]
		if s == 0 || e == n || s == e {
			w.Stats.Inc("iter.range-boundary")
		}
	case "badrange":
		s, e := st.Pos, st.End
		var e1, e2 error
		e1 = a.IterateRange(s, e, collect)
		e2 = a.IterateReadOnlyRange(s, e, collect)
		wantErr := wantSliceOOB
		if s <= n && e <= n {
			if s <= e {
				return nil // not actually invalid for this state
			}
			wantErr = wantInvalidSlice
		}
		w.Stats.Inc("reject.range")
		for _, er := range []error{e1, e2} {
			msg := checkErr(er, wantErr)
			if msg != "" && s > n && e <= n && checkErr(er, wantInvalidSlice) == "" {
				// start out of bounds AND start > end: both causes are true of this request; either name is accepted
				msg = ""
			}
			if msg != "" {
				return w.viol("iter.range-error", "%s [%d:%d] on %d elements: %s", what, s, e, n, msg)
			}
		}
		if len(got) != 0 {
			return w.viol("iter.range-error", "%s: invalid range still yielded elements", what)
		}
		w.result("iter badrange")
		return nil
	default:
		return nil
	}
	if err != nil {
		return w.viol("iter.error", "%s failed: %v", what, err)
	}
	if v := w.expectSeq(what, got, want); v != nil {
		return v
	}
	w.result("iter %s %d", st.Sub, len(got))
	return nil
}

func (w *World) expectSubsequence(what string, got []atree.Value, want []MVal) *Violation {
	j := 0
	for i := range got {
		found := false
		for j < len(want) {
			if w.cmpValue(w.Storage, got[i], want[j], cmpOpts{}, "") == nil {
				found = true
				j++
				break
			}
			j++
		}
		if !found {
			return w.viol("iter.loaded", "%s: yielded element %d (%v) is not an in-order subsequence of the full enumeration", what, i, got[i])
		}
	}
	return nil
}

func (w *World) iterMap(st *Step, c *MCont, m *atree.OrderedMap) *Violation {
	what := fmt.Sprintf("map #%d %s iteration", c.CID, st.Sub)
	order := w.mapOrder(c, m)
	var keys, vals []atree.Value
	var err error
	both := func(k, v atree.Value) (bool, error) { keys = append(keys, k); vals = append(vals, v); return true, nil }
	onlyK := func(k atree.Value) (bool, error) { keys = append(keys, k); return true, nil }
	onlyV := func(v atree.Value) (bool, error) { vals = append(vals, v); return true, nil }
	wantK := make([]MVal, len(order))
	wantV := make([]MVal, len(order))
	for i, idx := range order {
		wantK[i], wantV[i] = c.Keys[idx], c.Vals[idx]
	}
	switch st.Sub {
	case "ro":
		err = m.IterateReadOnly(both)
	case "mut":
		err = m.Iterate(w.cmp, w.hip, both)
	case "keys":
		err = m.IterateKeys(w.cmp, w.hip, onlyK)
	case "rokeys":
		err = m.IterateReadOnlyKeys(onlyK)
	case "values":
		err = m.IterateValues(w.cmp, w.hip, onlyV)
	case "rovalues":
		err = m.IterateReadOnlyValues(onlyV)
	case "loaded":
		err = m.IterateReadOnlyLoadedValues(both)
		if err == nil {
			if v := w.expectSubsequence(what+" keys", keys, wantK); v != nil {
				return v
			}
			return nil
		}
	case "iterobj":
		// iterator objects: both constructors plus the loaded-value iterator, drained with Next / NextKey /
		// NextValue or a rotation of the three (every call consumes exactly one element)
		var it atree.MapIterator
		var e0 error
		wantMut, loaded := false, false
		switch st.N % 8 {
		case 0, 2, 3:
			it, e0 = m.ReadOnlyIterator()
		case 1, 4, 5:
			it, e0 = m.Iterator(w.cmp, w.hip)
			wantMut = true
		case 6:
			it, e0 = m.ReadOnlyLoadedValueIterator()
			loaded = true
		default:
			it, e0 = m.ReadOnlyIteratorWithMutationCallback(func(atree.Value) {}, func(atree.Value) {})
		}
		w.Stats.Inc(fmt.Sprintf("iter.obj.map.%d", st.N%8))
		if e0 != nil {
			return w.viol("iter.error", "%s (constructor %d): %v", what, st.N%8, e0)
		}
		if it.CanMutate() != wantMut {
			return w.viol("iter.flavour", "%s (constructor %d): CanMutate=%v, want %v", what, st.N%8, it.CanMutate(), wantMut)
		}
		// per element: which accessor (0 Next, 1 NextKey, 2 NextValue)
		mode := func(i int) int {
			switch st.N % 8 {
			case 2, 4:
				return 1
			case 3, 5:
				return 2
			case 6, 7:
				return i % 3
			}
			return 0
		}
		var seq []atree.Value // what was returned, element by element
		var modes []int
		for i := 0; ; i++ {
			var k, v atree.Value
			var e error
			md := mode(i)
			switch md {
			case 0:
				k, v, e = it.Next()
			case 1:
				k, e = it.NextKey()
			default:
				v, e = it.NextValue()
				k = v
			}
			if e != nil {
				err = e
				break
			}
			if k == nil {
				break
			}
			if md == 0 && v == nil {
				return w.viol("iter.seq", "%s (constructor %d): Next returned a key without a value at element %d", what, st.N%8, i)
			}
			if md == 2 {
				seq = append(seq, v)
			} else {
				seq = append(seq, k)
			}
			modes = append(modes, md)
			if md == 0 {
				vals = append(vals, v)
			}
			if len(seq) > len(order)+1 {
				return w.viol("iter.count", "%s (constructor %d) yields more than %d elements", what, st.N%8, len(order))
			}
		}
		if err != nil {
			return w.viol("iter.error", "%s failed: %v", what, err)
		}
		if k, v, e := it.Next(); e != nil || k != nil || v != nil {
			return w.viol("iter.count", "%s (constructor %d): Next after the end returned (%v, %v, %v)", what, st.N%8, k, v, e)
		}
		if loaded {
			// partially loaded: an in-order subsequence by key is all that can be said; with mixed accessors
			// only the elements read with a key-bearing accessor are compared
			var ks []atree.Value
			for i, md := range modes {
				if md != 2 {
					ks = append(ks, seq[i])
				}
			}
			return w.expectSubsequence(what+" keys", ks, wantK)
		}
		if len(seq) != len(order) {
			return w.viol("iter.count", "%s (constructor %d) yields %d elements, want %d", what, st.N%8, len(seq), len(order))
		}
		vi := 0
		for i, md := range modes {
			wantX := wantK[i]
			if md == 2 {
				wantX = wantV[i]
			}
			if mmx := w.cmpValue(w.Storage, seq[i], wantX, cmpOpts{}, fmt.Sprintf("%s (constructor %d, accessor %d) element %d", what, st.N%8, md, i)); mmx != nil {
				return w.viol("iter.seq", "%s", mmx.msg)
			}
			if md == 0 {
				if mmx := w.cmpValue(w.Storage, vals[vi], wantV[i], cmpOpts{}, fmt.Sprintf("%s (constructor %d) value of element %d", what, st.N%8, i)); mmx != nil {
					return w.viol("iter.seq", "%s", mmx.msg)
				}
				vi++
			}
		}
		w.result("iter %s/%d %d", st.Sub, st.N%8, len(order))
		return nil
	default:
		return nil
	}
	if err != nil {
		return w.viol("iter.error", "%s failed: %v", what, err)
	}
	if keys != nil || len(order) == 0 && st.Sub != "values" && st.Sub != "rovalues" {
		if v := w.expectSeq(what+" keys", keys, wantK); v != nil {
			return v
		}
	}
	if vals != nil || len(order) == 0 && (st.Sub == "values" || st.Sub == "rovalues") {
		if v := w.expectSeq(what+" values", vals, wantV); v != nil {
			return v
		}
	}
	w.result("iter %s %d", st.Sub, len(order))
	return nil
}

// iterMutArray: mutable iteration with overwrite of the current element and/or mutation of nested children.
func (w *World) iterMutArray(st *Step, c *MCont, a *atree.Array) *Violation {
	what := fmt.Sprintf("array #%d mutable iteration with %s", c.CID, st.Sub)
	n := len(c.Elems)
	i := 0
	var viol *Violation
	k := st.N
	if k <= 0 {
		k = 1
	}
	err := a.Iterate(func(v atree.Value) (bool, error) {
		if i >= n {
			viol = w.viol("iter.count", "%s yields more than %d elements", what, n)
			return false, nil
		}
		if mmx := w.cmpValue(w.Storage, v, c.Elems[i], cmpOpts{}, fmt.Sprintf("%s position %d", what, i)); mmx != nil {
			viol = w.viol("iter.seq", "%s", mmx.msg)
			return false, nil
		}
		if (uint64(i)+st.Pos)%uint64(k) == 0 {
			ch := childOf(c.Elems[i])
			if ch != nil && (st.Sub == "child" || st.Sub == "both") {
				// mutate the nested container through the value the iterator handed out
				in, _ := unwrapValue(v)
				if vv := w.mutateChildInIteration(in, ch, i); vv != nil {
					viol = vv
					return false, nil
				}
				w.Stats.Inc("iter.child-mutated")
			} else if ch == nil && (st.Sub == "overwrite" || st.Sub == "both") {
				nv, nm, err := w.materialize(&VSpec{S: &[2]int{st.V.sid() + i, st.V.slen()}}, c.Owner, c)
				if err == nil {
					old := c.Elems[i]
					existing, err := a.Set(uint64(i), nv)
					if err != nil {
						viol = w.viol("iter.mutation", "%s: overwriting the current element %d failed: %v", what, i, err)
						return false, nil
					}
					c.Elems[i] = nm
					if vv := w.checkReturned("iter.mutation", what+" overwritten element", existing, old); vv != nil {
						viol = vv
						return false, nil
					}
					if vv := w.detached(old, existing, false); vv != nil {
						viol = vv
						return false, nil
					}
					w.Stats.Inc("iter.current-overwritten")
				}
			}
		}
		i++
		return true, nil
	})
	if viol != nil {
		return viol
	}
	if err != nil {
		return w.viol("iter.error", "%s failed: %v", what, err)
	}
	if i != n {
		return w.viol("iter.count", "%s yields %d elements, model %d", what, i, n)
	}
	w.result("itermut %d", n)
	return nil
}

func (v *VSpec) sid() int {
	if v != nil && v.S != nil {
		return v.S[0]
	}
	return 7
}
func (v *VSpec) slen() int {
	if v != nil && v.S != nil {
		return v.S[1]
	}
	return 9
}

// mutateChildInIteration appends a few elements to a nested container obtained from a mutable iterator
// (enough to make a small child outgrow its slot now and then).
func (w *World) mutateChildInIteration(in atree.Value, ch *MCont, salt int) *Violation {
	cnt := 1 + salt%6 // enough to outgrow the slot, or to split the parent slab under the cursor, now and then
	switch x := in.(type) {
	case *atree.Array:
		if ch.IsMap {
			return w.viol("iter.seq", "child #%d: iterator handed out an array for a map", ch.CID)
		}
		for j := 0; j < cnt; j++ {
			s := strFor(900000+salt*7+j, 10+salt%80)
			if err := x.Append(Str{s}); err != nil {
				return w.viol("iter.mutation", "appending to child #%d obtained from a mutable iterator failed: %v", ch.CID, err)
			}
			ch.Elems = append(ch.Elems, MStr(s))
		}
		w.Handles[ch.CID] = x
	case *atree.OrderedMap:
		if !ch.IsMap {
			return w.viol("iter.seq", "child #%d: iterator handed out a map for an array", ch.CID)
		}
		for j := 0; j < cnt; j++ {
			km := MU64(uint64(800000 + salt*7 + j))
			if _, refuse := w.collisionRefusal(ch, km, ch.findKey(km)); refuse {
				continue
			}
			s := strFor(900000+salt*7+j, 10+salt%80)
			old, err := x.Set(w.cmp, w.hip, w.valueOfKey(km), Str{s})
			if err != nil {
				return w.viol("iter.mutation", "setting into child #%d obtained from a mutable iterator failed: %v", ch.CID, err)
			}
			if idx := ch.findKey(km); idx >= 0 {
				oldv := ch.Vals[idx]
				ch.Vals[idx] = MStr(s)
				if vv := w.detached(oldv, old, false); vv != nil {
					return vv
				}
			} else {
				ch.Keys = append(ch.Keys, km)
				ch.Vals = append(ch.Vals, MStr(s))
			}
		}
		w.Handles[ch.CID] = x
	}
	return nil
}

func (w *World) iterMutMap(st *Step, c *MCont, m *atree.OrderedMap) *Violation {
	what := fmt.Sprintf("map #%d mutable iteration with %s", c.CID, st.Sub)
	order := w.mapOrder(c, m)
	i := 0
	var viol *Violation
	k := st.N
	if k <= 0 {
		k = 1
	}
	err := m.Iterate(w.cmp, w.hip, func(kv, v atree.Value) (bool, error) {
		if i >= len(order) {
			viol = w.viol("iter.count", "%s yields more than %d entries", what, len(order))
			return false, nil
		}
		idx := order[i]
		if mmx := w.cmpValue(w.Storage, kv, c.Keys[idx], cmpOpts{}, fmt.Sprintf("%s key at position %d", what, i)); mmx != nil {
			viol = w.viol("iter.seq", "%s", mmx.msg)
			return false, nil
		}
		if mmx := w.cmpValue(w.Storage, v, c.Vals[idx], cmpOpts{}, fmt.Sprintf("%s value at position %d", what, i)); mmx != nil {
			viol = w.viol("iter.seq", "%s", mmx.msg)
			return false, nil
		}
		if (uint64(i)+st.Pos)%uint64(k) == 0 {
			ch := childOf(c.Vals[idx])
			if ch != nil && (st.Sub == "child" || st.Sub == "both") {
				in, _ := unwrapValue(v)
				if vv := w.mutateChildInIteration(in, ch, i); vv != nil {
					viol = vv
					return false, nil
				}
				w.Stats.Inc("iter.child-mutated")
			} else if ch == nil && (st.Sub == "overwrite" || st.Sub == "both") {
				nv, nm, err := w.materialize(&VSpec{S: &[2]int{st.V.sid() + i, st.V.slen()}}, c.Owner, c)
				if err == nil {
					old := c.Vals[idx]
					existing, err := m.Set(w.cmp, w.hip, w.valueOfKey(c.Keys[idx]), nv)
					if err != nil {
						viol = w.viol("iter.mutation", "%s: overwriting the current entry failed: %v", what, err)
						return false, nil
					}
					c.Vals[idx] = nm
					if vv := w.checkReturned("iter.mutation", what+" overwritten value", existing, old); vv != nil {
						viol = vv
						return false, nil
					}
					if vv := w.detached(old, existing, false); vv != nil {
						viol = vv
						return false, nil
					}
					w.Stats.Inc("iter.current-overwritten")
				}
			}
		}
		i++
		return true, nil
	})
	if viol != nil {
		return viol
	}
	if err != nil {
		return w.viol("iter.error", "%s failed: %v", what, err)
	}
	if i != len(order) {
		return w.viol("iter.count", "%s yields %d entries, model %d", what, i, len(order))
	}
	w.result("itermut %d", i)
	return nil
}

// iterLoaded: commit, evict everything, re-load a PRNG-chosen subset of the container's slabs,
// and enumerate the loaded values: an in-order subsequence; the full order once all is loaded.
func (w *World) iterLoaded(st *Step) *Violation {
	c := w.Model.Conts[st.C]
	if c == nil || c.Parent != nil || c.Volatile {
		return nil
	}
	if v := w.execCommit(&Step{Op: "commit", Flavour: "fc", Workers: 1}); v != nil {
		return v
	}
	w.Storage.DropCache()
	for _, cid := range w.sortedHandleCIDs() {
		delete(w.Handles, cid)
	}
	view, rvx := BuildView(w.Ledger.Clone())
	if rvx != nil {
		return w.viol(rvx.class, "%s", rvx.msg)
	}
	wr, rvx := view.Walk([]RegID{c.VID})
	if rvx != nil {
		return w.viol(rvx.class, "%s", rvx.msg)
	}
	var ids []RegID
	for id := range wr.Reached {
		ids = append(ids, id)
	}
	sort.Slice(ids, func(i, j int) bool { return regLess(ids[i], ids[j]) })
	r := NewRng(st.Pos).Sub("load")
	loadedAll := true
	h, v := w.handle(c) // loads the root
	if v != nil {
		return v
	}
	for _, id := range ids {
		if id == c.VID {
			continue
		}
		if r.Intn(100) < st.N {
			if _, _, err := w.Storage.Retrieve(id.SlabID()); err != nil {
				return w.viol("iter.error", "loading slab %s failed: %v", id, err)
			}
		} else {
			loadedAll = false
		}
	}
	what := fmt.Sprintf("container #%d loaded-value iteration (%d%% of %d slabs loaded)", c.CID, st.N, len(ids))
	var keys, vals []atree.Value
	var err error
	var wantK, wantV []MVal
	if c.IsMap {
		m := h.(*atree.OrderedMap)
		err = m.IterateReadOnlyLoadedValues(func(k, v atree.Value) (bool, error) { keys = append(keys, k); vals = append(vals, v); return true, nil })
		for _, idx := range w.mapOrder(c, m) {
			wantK = append(wantK, c.Keys[idx])
			wantV = append(wantV, c.Vals[idx])
		}
	} else {
		err = h.(*atree.Array).IterateReadOnlyLoadedValues(func(v atree.Value) (bool, error) { vals = append(vals, v); return true, nil })
		wantV = c.Elems
	}
	if err != nil {
		return w.viol("iter.error", "%s failed: %v", what, err)
	}
	w.Stats.Inc("iter.loaded-subset")
	if loadedAll {
		w.Stats.Inc("iter.loaded-all")
		if c.IsMap {
			if v := w.expectSeq(what+" keys", keys, wantK); v != nil {
				return v
			}
		}
		return w.expectSeq(what+" values", vals, wantV)
	}
	if len(vals) < len(wantV) {
		w.Stats.Inc("iter.loaded-partial")
	}
	if c.IsMap {
		if v := w.expectSubsequence(what+" keys", keys, wantK); v != nil {
			return v
		}
	}
	return w.expectSubsequence(what+" values", vals, wantV)
}

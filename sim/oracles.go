package sim

// O-DEEP (live) and O-RECOVER (from registers only).

import (
	"fmt"

	"github.com/onflow/atree"
)

// openRoot opens a root container by id on the given storage with a transient handle.
func (w *World) openRoot(storage atree.SlabStorage, c *MCont) (atree.Value, error) {
	id := c.VID.SlabID()
	if c.IsMap {
		return atree.NewMapWithRootID(storage, id, w.digBuilder(c))
	}
	return atree.NewArrayWithRootID(storage, id)
}

// DeepLive compares every root (through transient handles on the live storage)
// and every held handle with the model.
func (w *World) DeepLive(o cmpOpts) *Violation {
	for _, r := range w.Model.Roots() {
		v, err := w.openRoot(w.Storage, r)
		if err != nil {
			return w.viol("reopen", "root #%d (%s) cannot be opened by its root id: %v", r.CID, r.VID, err)
		}
		if mmx := w.cmpValue(w.Storage, v, r, o, "live"); mmx != nil {
			return w.viol("deep."+mmx.class, "%s", mmx.msg)
		}
	}
	for _, cid := range w.sortedHandleCIDs() {
		c := w.Model.Conts[cid]
		if c == nil {
			continue
		}
		var n uint64
		var vid RegID
		var t atree.TypeInfo
		switch h := w.Handles[cid].(type) {
		case *atree.Array:
			n, vid, t = h.Count(), vidOf(h), h.Type()
		case *atree.OrderedMap:
			n, vid, t = h.Count(), vidOf(h), h.Type()
		}
		if n != uint64(c.Count()) || !typeInfoEqual(t, c.Type) {
			return w.viol("deep.handle", "held handle of container #%d reports count %d type %v, model %d %v", cid, n, t, c.Count(), c.Type)
		}
		if vid != c.VID {
			return w.viol("valueid", "held handle of container #%d reports value id %s, model %s", cid, vid, c.VID)
		}
		if c.Parent == nil {
			var sid atree.SlabID
			switch h := w.Handles[cid].(type) {
			case *atree.Array:
				sid = h.SlabID()
			case *atree.OrderedMap:
				sid = h.SlabID()
			}
			if RegIDOf(sid) != c.VID {
				return w.viol("rootid", "root container #%d reports slab id %s, created as %s", cid, RegIDOf(sid), c.VID)
			}
		}
	}
	return nil
}

// Recover opens a brand-new storage over ledger l (registers only) and checks
// that it reconstructs exactly model m.
func (w *World) Recover(l *SimLedger, m *Model, o cmpOpts, class string) *Violation {
	st := w.newStorage(l, nil)
	for _, r := range m.Roots() {
		if r.Volatile {
			continue
		}
		v, err := w.openRoot(st, r)
		if err != nil {
			return w.viol(class, "root #%d (%s) cannot be reconstructed from registers: %v", r.CID, r.VID, err)
		}
		if mmx := w.cmpValue(st, v, r, o, "recovered"); mmx != nil {
			return w.viol(class, "[%s] %s", mmx.class, mmx.msg)
		}
	}
	return nil
}

func (w *World) describeRoots() string {
	s := ""
	for _, r := range w.Model.Roots() {
		s += fmt.Sprintf("#%d(%s,%d) ", r.CID, r.VID, r.Count())
	}
	return s
}

package sim

// O-DEEP (live) and O-RECOVER (from registers only).

import (
	"fmt"

	"github.com/onflow/atree"
)

// openRoot opens a root container by id on the given storage with a transient handle.
func (w *World) openRoot(storage atree.SlabStorage, c *MCont) (atree.Value, error) {
	id := c.VID.SlabID()
	if c.IsMap {
		return atree.NewMapWithRootID(storage, id, w.digBuilder(c))
	}
	return atree.NewArrayWithRootID(storage, id)
}

// DeepLive compares every root (through transient handles on the live storage)
// and every held handle with the model.
func (w *World) DeepLive(o cmpOpts) *Violation {
	for _, r := range w.Model.Roots() {
		v, err := w.openRoot(w.Storage, r)
		if err != nil {
			return w.viol("reopen", "root #%d (%s) cannot be opened by its root id: %v", r.CID, r.VID, err)
		}
		if mmx := w.cmpValue(w.Storage, v, r, o, "live"); mmx != nil {
			return w.viol("deep."+mmx.class, "%s", mmx.msg)
		}
	}
	for _, cid := range w.sortedHandleCIDs() {
		c := w.Model.Conts[cid]
		if c == nil {
			continue
		}
		var n uint64
		var vid RegID
		var t atree.TypeInfo
		switch h := w.Handles[cid].(type) {
		case *atree.Array:
			n, vid, t = h.Count(), vidOf(h), h.Type()
		case *atree.OrderedMap:
			n, vid, t = h.Count(), vidOf(h), h.Type()
		}
		if n != uint64(c.Count()) || !typeInfoEqual(t, c.Type) {
			return w.viol("deep.handle", "held handle of container #%d reports count %d type %v, model %d %v", cid, n, t, c.Count(), c.Type)
		}
		if vid != c.VID {
			return w.viol("valueid", "held handle of container #%d reports value id %s, model %s", cid, vid, c.VID)
		}
		if c.Parent == nil {
			var sid atree.SlabID
			switch h := w.Handles[cid].(type) {
			case *atree.Array:
				sid = h.SlabID()
			case *atree.OrderedMap:
				sid = h.SlabID()
			}
			if RegIDOf(sid) != c.VID {
				return w.viol("rootid", "root container #%d reports slab id %s, created as %s", cid, RegIDOf(sid), c.VID)
			}
		}
	}
	return nil
}

// Recover opens a brand-new storage over ledger l (registers only) and checks
// that it reconstructs exactly model m.
func (w *World) Recover(l *SimLedger, m *Model, o cmpOpts, class string) *Violation {
	st := w.newStorage(l, nil)
	for _, r := range m.Roots() {
		if r.Volatile {
			continue
		}
		v, err := w.openRoot(st, r)
		if err != nil {
			return w.viol(class, "root #%d (%s) cannot be reconstructed from registers: %v", r.CID, r.VID, err)
		}
		if mmx := w.cmpValue(st, v, r, o, "recovered"); mmx != nil {
			return w.viol(class, "[%s] %s", mmx.class, mmx.msg)
		}
	}
	return nil
}

func (w *World) describeRoots() string {
	s := ""
	for _, r := range w.Model.Roots() {
		s += fmt.Sprintf("#%d(%s,%d) ", r.CID, r.VID, r.Count())
	}
	return s
}

// accessTraversal is the model-free half of C05's last clause: inside the library itself, positional / keyed
// access and sequential traversal agree.  Every element that a traversal yields must be what the lookup by
// its index / key returns, and the traversal yields Count() elements; checked recursively through nested
// containers (as the traversal hands them out).
func (w *World) accessTraversal() *Violation {
	for _, r := range w.Model.Roots() {
		v, err := w.openRoot(w.Storage, r)
		if err != nil {
			continue // judged by the content oracles
		}
		if vv := w.accessTraversalOf(v, fmt.Sprintf("container #%d", r.CID), 0); vv != nil {
			return vv
		}
	}
	w.Stats.Inc("struct.access-traversal-checked")
	return nil
}

func sameLibValue(a, b atree.Value) bool {
	switch x := a.(type) {
	case U64:
		y, ok := b.(U64)
		return ok && x == y
	case Byte:
		y, ok := b.(Byte)
		return ok && x == y
	case Str:
		y, ok := b.(Str)
		return ok && x.S == y.S
	case SomeV:
		y, ok := b.(SomeV)
		return ok && sameLibValue(x.V, y.V)
	case *atree.Array:
		y, ok := b.(*atree.Array)
		return ok && x.ValueID() == y.ValueID()
	case *atree.OrderedMap:
		y, ok := b.(*atree.OrderedMap)
		return ok && x.ValueID() == y.ValueID()
	}
	return false
}

func (w *World) accessTraversalOf(v atree.Value, path string, depth int) *Violation {
	if depth > 5 {
		return nil
	}
	in, _ := unwrapValue(v)
	switch c := in.(type) {
	case *atree.Array:
		var viol *Violation
		i := uint64(0)
		var children []atree.Value
		err := c.IterateReadOnly(func(e atree.Value) (bool, error) {
			got, gerr := c.Get(i)
			if gerr != nil {
				viol = w.viol("struct.access-traversal", "%s: traversal yields an element at position %d, positional access fails: %v", path, i, gerr)
				return false, nil
			}
			if !sameLibValue(e, got) {
				viol = w.viol("struct.access-traversal", "%s: traversal yields %v at position %d, positional access returns %v", path, e, i, got)
				return false, nil
			}
			if x, _ := unwrapValue(e); x != nil {
				switch x.(type) {
				case *atree.Array, *atree.OrderedMap:
					children = append(children, e)
				}
			}
			i++
			return true, nil
		})
		if viol != nil {
			return viol
		}
		if err != nil {
			return nil // judged by the content oracles
		}
		if i != c.Count() {
			return w.viol("struct.access-traversal", "%s: traversal yields %d elements, Count() is %d", path, i, c.Count())
		}
		for k, ch := range children {
			if vv := w.accessTraversalOf(ch, fmt.Sprintf("%s/child%d", path, k), depth+1); vv != nil {
				return vv
			}
		}
	case *atree.OrderedMap:
		var viol *Violation
		n := uint64(0)
		var children []atree.Value
		err := c.IterateReadOnly(func(k, e atree.Value) (bool, error) {
			got, gerr := c.Get(w.cmp, w.hip, k)
			if gerr != nil {
				viol = w.viol("struct.access-traversal", "%s: traversal yields key %v, keyed access fails: %v", path, k, gerr)
				return false, nil
			}
			if !sameLibValue(e, got) {
				viol = w.viol("struct.access-traversal", "%s: traversal yields %v under key %v, keyed access returns %v", path, e, k, got)
				return false, nil
			}
			if x, _ := unwrapValue(e); x != nil {
				switch x.(type) {
				case *atree.Array, *atree.OrderedMap:
					children = append(children, e)
				}
			}
			n++
			return true, nil
		})
		if viol != nil {
			return viol
		}
		if err != nil {
			return nil
		}
		if n != c.Count() {
			return w.viol("struct.access-traversal", "%s: traversal yields %d entries, Count() is %d", path, n, c.Count())
		}
		for k, ch := range children {
			if vv := w.accessTraversalOf(ch, fmt.Sprintf("%s/child%d", path, k), depth+1); vv != nil {
				return vv
			}
		}
	}
	return nil
}
